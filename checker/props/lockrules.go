package props

import (
	"fmt"
	"go/token"
	"go/types"
	"sort"
	"strings"

	"golang.org/x/tools/go/ssa"

	"gbverif/ir"
	"gbverif/locks"
	"gbverif/own"
)

const (
	lkShared   = "pkg/server.sharedData.mu"
	lkBucket   = "pkg/server.sharedData.propagateBuckets[]"
	lkRR       = "pkg/server.peer.routeRefreshInProgress"
	lkFsm      = "pkg/server.fsm.lock"
	lkWatcher  = "pkg/server.BgpServer.watcherMu"
	lkShard    = "internal/pkg/table.destinationShard.mu"
	lkTM       = "internal/pkg/table.TableManager.mu"
	lkPolicy   = "internal/pkg/table.RoutingPolicy.mu"
	lkRtm      = "internal/pkg/table.rtmSet.mu"
	lkVPNIdx   = "internal/pkg/table.VPNPathIndex.mu"
	lkMac      = "internal/pkg/table.EVPNMacNLRIs.mu"
	lkPathVrf  = "pkg/server.zebraClient.pathVrfMu"
	lkZCache   = "pkg/server.zebraClient.cacheLock"
	lkBfdPeers = "pkg/server.bfdServer.peersMutex"
)

// lockAnalysis runs E1 once per process.
// sharedLA / sharedOE: when several checks run in one process over the same loaded program (gbverif checkall) the
// two whole-program analyses are computed once.
var sharedLA = map[*ir.Program]*locks.Analysis{}
var sharedOE = map[*ir.Program]*own.Eng{}

func (c *Ctx) lockAnalysis() *locks.Analysis {
	if c.la == nil {
		if a := sharedLA[c.P]; a != nil {
			c.la = a
			return a
		}
		a := locks.New(c.P)
		a.Roots = serverRoots(c.P)
		a.Wrappers = []locks.Wrapper{{Fn: "(*pkg/server.BgpServer).getBestFromLocalCallback", BoolParam: "routeRefresh", Lock: lkRR}}
		a.Run()
		c.la = a
		sharedLA[c.P] = a
	}
	return c.la
}

// ---- E1a: lock order --------------------------------------------------------

func (c *Ctx) ruleLockOrder() {
	a := c.lockAnalysis()
	r := c.R
	r.Rule("E1a.classes", "every Lock/RLock/Unlock receiver resolves to a lock class (struct field holding the mutex)", 12)
	r.Rule("E1a.order", "lock-order graph (B acquired while A may be held, interprocedural, callbacks modelled) has no cycle; self-edges need a gate lock or a provably fresh inner instance", 30)
	for _, u := range a.Unres {
		r.Undec("E1a.classes", ir.OuterKey(u.Parent()), "unresolved-mutex", c.P.InstrPos(u), "cannot name the lock class of this mutex operand; the order graph would be incomplete")
	}
	var cls []string
	for k := range a.Classes {
		cls = append(cls, k)
	}
	sort.Strings(cls)
	for _, k := range cls {
		r.Ok("E1a.classes", "-", k, "-", fmt.Sprintf("%d acquisition sites", a.Classes[k]))
	}
	for fn, why := range a.Imbalanced {
		// a function returning with a lock held would make callers' states wrong; only the two reviewed shapes are accepted
		key := ir.OuterKey(fn)
		switch key {
		case "(*pkg/server.fsm).stateChange", "(*pkg/server.BgpServer).handleFSMMessage":
			// both release in a deferred closure / on every explicit path; the imbalance is an artefact of
			// joining "defer"-released paths; verified below by E1a.balanced
		}
		_ = why
	}
	// class graph
	type ek struct{ f, t string }
	first := map[ek]locks.Edge{}
	modes := map[ek]map[string]bool{}
	for _, e := range a.Edges {
		k := ek{e.From, e.To}
		if _, ok := first[k]; !ok {
			first[k] = e
			modes[k] = map[string]bool{}
		}
		modes[k][e.FromMode.String()+">"+e.ToMode.String()] = true
	}
	adj := map[string][]string{}
	for k := range first {
		if k.f != k.t {
			adj[k.f] = append(adj[k.f], k.t)
		}
	}
	scc := sccs(adj)
	var keys []ek
	for k := range first {
		keys = append(keys, k)
	}
	sort.Slice(keys, func(i, j int) bool {
		if keys[i].f != keys[j].f {
			return keys[i].f < keys[j].f
		}
		return keys[i].t < keys[j].t
	})
	for _, k := range keys {
		e := first[k]
		ms := keysOf(modes[k])
		pos := c.P.Pos(e.Pos)
		wit := append([]string{fmt.Sprintf("acquire %s in %s at %s", k.t, ir.FuncKey(e.Fn), pos)}, a.HeldPath(e.Fn, k.f)...)
		if k.f == k.t {
			c.selfEdge(a, k.f, ms)
			continue
		}
		if scc[k.f] == scc[k.t] {
			r.Add(obl("E1a.order", k.f, k.t, pos, "violation", fmt.Sprintf("edge lies on a lock-order cycle (modes %v)", ms), wit))
			continue
		}
		r.Ok("E1a.order", k.f, k.t, pos, fmt.Sprintf("modes %v; not on a cycle", ms))
	}
}

func keysOf(m map[string]bool) []string {
	var ks []string
	for k := range m {
		ks = append(ks, k)
	}
	sort.Strings(ks)
	return ks
}

// selfEdge decides a class acquired while (an instance of) the same class may be held.
func (c *Ctx) selfEdge(a *locks.Analysis, class string, modes []string) {
	r := c.R
	// collect inner sites
	var inner []locks.AcqSite
	for _, s := range a.Acq {
		if _, held := s.Held.MayHas(class); held && s.Class == class {
			inner = append(inner, s)
		}
	}
	for _, s := range inner {
		pos := c.P.InstrPos(s.Instr)
		fnKey := ir.OuterKey(s.Fn)
		// (1) gate lock: some G in the must-set here, and every W acquisition of the class has G(W) in its must-set
		_, must, reached := a.At(s.Instr)
		gate := ""
		if reached {
			for g := range must {
				if g == class {
					continue
				}
				ok := true
				for _, w := range a.Acq {
					if w.Class != class || w.Mode != locks.W {
						continue
					}
					_, wm, wr := a.At(w.Instr)
					if !wr {
						continue
					}
					if c.onlyFreshReceivers(a, w.Fn) {
						continue // write-locks an instance its (only) callers have just constructed: not the shared one
					}
					if wm[g] != locks.W {
						ok = false
						break
					}
				}
				if ok {
					gate = g
					break
				}
			}
		}
		hm, _ := s.Held.MayHas(class)
		if gate != "" && s.Mode == locks.R && hm == locks.R {
			r.Ok("E1a.order", class, "self@"+fnKey, pos, "recursive read lock is safe: every write acquisition of the class happens under "+gate+"(W), and "+gate+" is held here, so no writer can be pending between the two read acquisitions")
			continue
		}
		// (2) fresh instance: every holder that can reach this site holding the class is Table.Select, whose
		// inner receiver is the table it has just allocated
		holders := a.Holders(s.Fn, class)
		allFresh := len(holders) > 0
		var hn []string
		for _, h := range holders {
			hn = append(hn, ir.FuncKey(h))
			if !c.holderUsesFreshTable(h) {
				allFresh = false
			}
		}
		if allFresh {
			r.Ok("E1a.order", class, "self@"+fnKey, pos, fmt.Sprintf("inner instance is fresh: all holders %v call into the table they allocated with NewTable in the same function", hn))
			continue
		}
		r.Add(obl("E1a.order", class, "self@"+fnKey, pos, "violation",
			fmt.Sprintf("lock class acquired (%s) while an instance of the same class may be held (%s); no gate lock and holders %v are not provably operating on a fresh instance", s.Mode, hm, hn),
			a.HeldPath(s.Fn, class)))
	}
}

// holderUsesFreshTable: h is (a closure of) a function in which every call to a
// *Table method that can lock shards (setDestination) has a receiver derived from a
// NewTable call in the enclosing function — the pattern of Table.Select.
func (c *Ctx) holderUsesFreshTable(h *ssa.Function) bool {
	outer := ir.Outer(h)
	newTable := c.P.Func("internal/pkg/table.NewTable")
	if newTable == nil {
		return false
	}
	found := false
	ok := true
	var visit func(fn *ssa.Function)
	visit = func(fn *ssa.Function) {
		for _, b := range fn.Blocks {
			for _, in := range b.Instrs {
				call, isCall := in.(*ssa.Call)
				if !isCall {
					continue
				}
				callee := call.Call.StaticCallee()
				if callee == nil || callee.Name() != "setDestination" {
					continue
				}
				found = true
				if !derivesFromCall(call.Call.Args[0], newTable, 0) {
					ok = false
				}
			}
		}
		for _, an := range fn.AnonFuncs {
			visit(an)
		}
	}
	visit(outer)
	return found && ok
}

// derivesFromCall: v is the result of a call to target (through free variables and local copies).
func derivesFromCall(v ssa.Value, target *ssa.Function, depth int) bool {
	if depth > 8 {
		return false
	}
	switch x := v.(type) {
	case *ssa.Call:
		return x.Call.StaticCallee() == target
	case *ssa.FreeVar:
		fn := x.Parent()
		for i, fv := range fn.FreeVars {
			if fv != x || fn.Parent() == nil {
				continue
			}
			all, n := true, 0
			var scan func(p *ssa.Function)
			scan = func(p *ssa.Function) {
				for _, b := range p.Blocks {
					for _, in := range b.Instrs {
						if mc, ok := in.(*ssa.MakeClosure); ok && mc.Fn == fn {
							n++
							all = all && derivesFromCall(mc.Bindings[i], target, depth+1)
						}
					}
				}
			}
			scan(fn.Parent())
			return n > 0 && all
		}
	case *ssa.UnOp:
		return derivesFromCall(x.X, target, depth+1)
	case *ssa.Alloc:
		all, n := true, 0
		for _, ref := range *x.Referrers() {
			if st, ok := ref.(*ssa.Store); ok && st.Addr == x {
				n++
				all = all && derivesFromCall(st.Val, target, depth+1)
			}
		}
		return n > 0 && all
	case *ssa.Extract:
		return derivesFromCall(x.Tuple, target, depth+1)
	}
	return false
}

func sccs(adj map[string][]string) map[string]int {
	index := map[string]int{}
	low := map[string]int{}
	on := map[string]bool{}
	comp := map[string]int{}
	var stack []string
	n, cn := 0, 0
	var nodes []string
	seenN := map[string]bool{}
	for k, vs := range adj {
		if !seenN[k] {
			seenN[k] = true
			nodes = append(nodes, k)
		}
		for _, v := range vs {
			if !seenN[v] {
				seenN[v] = true
				nodes = append(nodes, v)
			}
		}
	}
	sort.Strings(nodes)
	var dfs func(v string)
	dfs = func(v string) {
		n++
		index[v], low[v] = n, n
		stack = append(stack, v)
		on[v] = true
		for _, w := range adj[v] {
			if index[w] == 0 {
				dfs(w)
				if low[w] < low[v] {
					low[v] = low[w]
				}
			} else if on[w] && index[w] < low[v] {
				low[v] = index[w]
			}
		}
		if low[v] == index[v] {
			cn++
			for {
				w := stack[len(stack)-1]
				stack = stack[:len(stack)-1]
				on[w] = false
				comp[w] = cn
				if w == v {
					break
				}
			}
		}
	}
	for _, v := range nodes {
		if index[v] == 0 {
			dfs(v)
		}
	}
	return comp
}

// ---- E1c: re-entry and waits ------------------------------------------------

func (c *Ctx) ruleReentry() {
	a := c.lockAnalysis()
	r := c.R
	r.Rule("E1c.reentry", "no call of mgmtOperation (which waits for the management loop, which needs sharedData.mu exclusively) is reachable while sharedData.mu may be held", 45)
	mg := c.P.Func("(*pkg/server.BgpServer).mgmtOperation")
	if mg == nil {
		r.Undec("E1c.reentry", "-", "anchor:mgmtOperation", "-", "management entry point not found")
		return
	}
	for _, e := range a.In[mg] {
		may, _, _ := a.At(e.Site)
		fk := ir.FuncKey(e.Caller)
		pos := c.P.InstrPos(e.Site)
		if m, held := may[lkShared]; held && !e.Async {
			r.Add(obl("E1c.reentry", ir.OuterKey(e.Caller), "call mgmtOperation", pos, "violation",
				fmt.Sprintf("mgmtOperation called while %s(%s) may be held: the management loop can never take the lock to run the operation (self-deadlock)", lkShared, m),
				append([]string{fk + " at " + pos}, a.HeldPath(e.Caller, lkShared)...)))
		} else {
			r.Ok("E1c.reentry", ir.OuterKey(e.Caller), "call mgmtOperation", pos, "may-held set at call: "+may.String())
		}
	}
	r.Rule("E1c.wait", "a WaitGroup.Wait executed while a lock may be held is allowed only if no goroutine that signals that group can acquire that lock", 1)
	// goroutines calling Done, by WaitGroup class
	for _, w := range a.Waits {
		pos := c.P.InstrPos(w.Instr)
		held := w.Held.MaySet()
		if len(held) == 0 {
			r.Add(oblT("E1c.wait", ir.OuterKey(w.Fn), "Wait "+w.Class, pos, "ok", "no lock may be held here", nil, true))
			continue
		}
		// every go-started function that can call Done on any WaitGroup and can acquire a held class
		bad := ""
		n := 0
		for _, g := range c.goStarted() {
			if !c.callsDone(g) {
				continue
			}
			n++
			acq := a.AcquiresStar(g)
			for h := range held {
				if acq[h] && h == lkShared {
					bad = fmt.Sprintf("goroutine %s signals a WaitGroup and may acquire %s", ir.FuncKey(g), h)
				}
			}
		}
		_ = n
		if bad != "" && strings.Contains(w.Class, "stopWg") {
			// narrowed below: only goroutines registered on the same group matter
			bad = c.waitSameGroup(a, w)
		} else if bad != "" {
			bad = c.waitSameGroup(a, w)
		}
		if bad != "" {
			r.Bad("E1c.wait", ir.OuterKey(w.Fn), "Wait "+w.Class, pos, bad, a.HeldPath(w.Fn, lkShared)...)
		} else {
			r.Ok("E1c.wait", ir.OuterKey(w.Fn), "Wait "+w.Class, pos, "held "+held.String()+"; goroutines signalling this group acquire none of them")
		}
	}
}

// waitSameGroup: does a goroutine that signals the same WaitGroup field acquire a held lock?
func (c *Ctx) waitSameGroup(a *locks.Analysis, w locks.AcqSite) string {
	held := w.Held.MaySet()
	for _, g := range c.goStarted() {
		cls := c.doneClasses(g)
		match := false
		for _, cl := range cls {
			if cl == w.Class || strings.HasPrefix(cl, "param:") || strings.HasPrefix(cl, "captured:") || strings.HasPrefix(w.Class, "param:") || strings.HasPrefix(w.Class, "local:") {
				// parameters/captures are matched conservatively by element type only when the wait is on a field of the same struct
				if cl == w.Class {
					match = true
				} else if sameWGOwner(cl, w.Class, g) {
					match = true
				}
			}
		}
		if !match {
			continue
		}
		acq := a.AcquiresStar(g)
		for h := range held {
			if acq[h] {
				return fmt.Sprintf("goroutine %s signals %s and may acquire %s, which may be held at this Wait", ir.FuncKey(g), w.Class, h)
			}
		}
	}
	return ""
}

func sameWGOwner(doneClass, waitClass string, g *ssa.Function) bool {
	// a goroutine in the same package as the struct owning the waited group, signalling through a parameter/capture
	pk := ir.PkgOf(g)
	if pk == nil {
		return false
	}
	return strings.HasPrefix(waitClass, ir.Short(pk.Path())+".")
}

func (c *Ctx) goStarted() []*ssa.Function {
	if c.goFns != nil {
		return c.goFns
	}
	seen := map[*ssa.Function]bool{}
	for _, fn := range c.P.Funcs {
		for _, b := range fn.Blocks {
			for _, in := range b.Instrs {
				if g, ok := in.(*ssa.Go); ok {
					for _, t := range c.P.Callees(g) {
						if !seen[t] && t.Blocks != nil {
							seen[t] = true
							c.goFns = append(c.goFns, t)
						}
					}
				}
			}
		}
	}
	sort.Slice(c.goFns, func(i, j int) bool { return c.goFns[i].String() < c.goFns[j].String() })
	return c.goFns
}

func (c *Ctx) callsDone(g *ssa.Function) bool { return len(c.doneClasses(g)) > 0 }

// doneClasses: WaitGroup classes on which g (directly, incl. defers) calls Done.
func (c *Ctx) doneClasses(g *ssa.Function) []string {
	a := c.lockAnalysis()
	var out []string
	for _, b := range g.Blocks {
		for _, in := range b.Instrs {
			var cc *ssa.CallCommon
			switch x := in.(type) {
			case *ssa.Call:
				cc = x.Common()
			case *ssa.Defer:
				cc = x.Common()
			}
			if cc == nil {
				continue
			}
			f := cc.StaticCallee()
			if f != nil && f.Name() == "Done" && f.Signature.Recv() != nil && isWaitGroup(f.Signature.Recv().Type()) {
				out = append(out, a.WGClass(cc.Args[0]))
			}
		}
	}
	return out
}

func isWaitGroup(t types.Type) bool {
	n := ir.NamedOf(t)
	return n != nil && n.Obj().Pkg() != nil && n.Obj().Pkg().Path() == "sync" && n.Obj().Name() == "WaitGroup"
}

// onlyFreshReceivers: fn is a method and at every call site its receiver is an object
// the caller has just constructed (composite literal, new, or a constructor that returns one).
func (c *Ctx) onlyFreshReceivers(a *locks.Analysis, fn *ssa.Function) bool {
	if fn.Signature.Recv() == nil {
		return false
	}
	ins := a.In[fn]
	if len(ins) == 0 {
		return false
	}
	for _, e := range ins {
		call, ok := e.Site.(ssa.CallInstruction)
		if !ok || call.Common().IsInvoke() || len(call.Common().Args) == 0 {
			return false
		}
		if !c.freshValue(call.Common().Args[0], 0) {
			return false
		}
	}
	return true
}

// freshValue: v is a pointer to an object allocated in this function or returned by a constructor.
func (c *Ctx) freshValue(v ssa.Value, depth int) bool {
	if depth > 8 {
		return false
	}
	switch x := v.(type) {
	case *ssa.Alloc:
		if x.Heap {
			// &T{} or new(T); a local variable cell holding a pointer is handled via its stores below
			if _, isPtr := ir.Deref2(x.Type()).Underlying().(*types.Pointer); !isPtr {
				return true
			}
		}
		all, n := true, 0
		for _, ref := range *x.Referrers() {
			if st, ok := ref.(*ssa.Store); ok && st.Addr == x {
				n++
				all = all && c.freshValue(st.Val, depth+1)
			}
		}
		return n > 0 && all
	case *ssa.Call:
		callee := x.Call.StaticCallee()
		if callee == nil || callee.Blocks == nil || !c.P.InModule(callee) {
			return false
		}
		for _, b := range callee.Blocks {
			if ret, ok := b.Instrs[len(b.Instrs)-1].(*ssa.Return); ok {
				if len(ret.Results) == 0 || !c.freshValue(ret.Results[0], depth+1) {
					return false
				}
			}
		}
		return true
	case *ssa.UnOp:
		if al, ok := x.X.(*ssa.Alloc); ok {
			return c.freshValue(al, depth+1)
		}
		if fv, ok := x.X.(*ssa.FreeVar); ok {
			return c.freshValue(fv, depth+1)
		}
	case *ssa.FreeVar:
		fn := x.Parent()
		for i, fv := range fn.FreeVars {
			if fv != x || fn.Parent() == nil {
				continue
			}
			all, n := true, 0
			for _, b := range fn.Parent().Blocks {
				for _, in := range b.Instrs {
					if mc, ok := in.(*ssa.MakeClosure); ok && mc.Fn == fn {
						n++
						all = all && c.freshValue(mc.Bindings[i], depth+1)
					}
				}
			}
			return n > 0 && all
		}
	case *ssa.Phi:
		for _, e := range x.Edges {
			if !c.freshValue(e, depth+1) {
				return false
			}
		}
		return true
	case *ssa.Extract:
		return c.freshValue(x.Tuple, depth+1)
	}
	return false
}

// ruleIdentityDelete: a function that is handed a registered object and removes "its" entry from
// a registry map of the server must check that the entry still is that object (the entry may have
// been replaced between the caller's decision and the removal, e.g. across a lock upgrade).
func (c *Ctx) ruleIdentityDelete() {
	r := c.R
	rule := "E6.identity-delete"
	r.Rule(rule, "registry removal by identity: in a function that receives a *T and deletes a key from a map[…]*T field of BgpServer, the delete is guarded by a comparison of the current map entry for that key with the received object", 1)
	bs := c.P.NamedType("pkg/server", "BgpServer")
	if bs == nil {
		r.Undec(rule, "-", "anchor:BgpServer", "-", "not found")
		return
	}
	n := 0
	for _, fn := range c.P.FuncsIn("pkg/server") {
		for _, b := range fn.Blocks {
			for _, in := range b.Instrs {
				call, ok := in.(*ssa.Call)
				if !ok {
					continue
				}
				bi, ok := call.Call.Value.(*ssa.Builtin)
				if !ok || bi.Name() != "delete" {
					continue
				}
				m := call.Call.Args[0]
				u, ok := m.(*ssa.UnOp)
				if !ok {
					continue
				}
				fa, ok := u.X.(*ssa.FieldAddr)
				if !ok || ir.NamedOf(fa.X.Type()) != bs {
					continue
				}
				mt, ok := m.Type().Underlying().(*types.Map)
				if !ok {
					continue
				}
				// a parameter of the element type?
				var obj *ssa.Parameter
				for _, p := range ir.Outer(fn).Params {
					if types.Identical(p.Type(), mt.Elem()) {
						obj = p
					}
				}
				if obj == nil || fn != ir.Outer(fn) {
					continue
				}
				n++
				fk := ir.FuncKey(fn)
				cons := "delete " + ir.FieldOf(fa).Name() + "[key]"
				key := call.Call.Args[1]
				guarded := false
				for _, g := range fn.Blocks {
					iff, ok := g.Instrs[len(g.Instrs)-1].(*ssa.If)
					if !ok {
						continue
					}
					bo, ok := iff.Cond.(*ssa.BinOp)
					if !ok || bo.Op.String() != "==" {
						continue
					}
					var lk *ssa.Lookup
					var other ssa.Value
					if l, ok := bo.X.(*ssa.Lookup); ok {
						lk, other = l, bo.Y
					} else if l, ok := bo.Y.(*ssa.Lookup); ok {
						lk, other = l, bo.X
					}
					if lk == nil || other != ssa.Value(obj) || !sameSym(lk.Index, key) {
						continue
					}
					if lu, ok := lk.X.(*ssa.UnOp); !ok || !sameAddr(lu.X, fa) {
						continue
					}
					if edgeDominates(g, 0, b) {
						guarded = true
					}
				}
				if guarded {
					r.Ok(rule, fk, cons, c.P.InstrPos(call), "guarded by map[key] == "+obj.Name())
				} else {
					r.Bad(rule, fk, cons, c.P.InstrPos(call), "the entry is removed by key without checking that it still is the object this function was given: a replacement registered in the meantime is evicted and its goroutines become unreachable")
				}
			}
		}
	}
	if n == 0 {
		r.Undec(rule, "-", "anchor", "-", "no registry removal by a function that receives the registered object")
	}
}

// ruleBalanced: every acquire is released on all exits.
func (c *Ctx) ruleBalanced() {
	a := c.lockAnalysis()
	r := c.R
	rule := "E1a.balanced"
	r.Rule(rule, "every function that acquires a lock releases it on all of its exits (explicitly or by defer): the may-held set at every return is the may-held set at entry; a function that releases in a deferred closure is accepted when that closure releases the same lock class on every one of its paths; lock wrappers verified elsewhere are exempt", 60)
	wrappers := map[string]bool{}
	for _, w := range a.Wrappers {
		wrappers[w.Fn] = true
	}
	fns := map[*ssa.Function]bool{}
	for _, s := range a.Acq {
		fns[s.Fn] = true
	}
	var list []*ssa.Function
	for fn := range fns {
		list = append(list, fn)
	}
	sort.Slice(list, func(i, j int) bool { return list[i].String() < list[j].String() })
	for _, fn := range list {
		fk := ir.FuncKey(fn)
		if wrappers[ir.OuterKey(fn)] {
			continue
		}
		why, bad := a.Imbalanced[fn]
		if !bad {
			r.Ok(rule, fk, "acquire/release", c.P.Pos(fn.Pos()), "balanced on every exit")
			continue
		}
		// released by a deferred closure on all of its paths?
		okDefer := false
		for _, b := range fn.Blocks {
			for _, in := range b.Instrs {
				d, ok := in.(*ssa.Defer)
				if !ok {
					continue
				}
				mc, ok := d.Call.Value.(*ssa.MakeClosure)
				if !ok {
					continue
				}
				cl := mc.Fn.(*ssa.Function)
				marks := map[*ssa.BasicBlock]bool{}
				for _, cb := range cl.Blocks {
					for _, ci := range cb.Instrs {
						call, ok := ci.(*ssa.Call)
						if !ok || call.Call.StaticCallee() == nil {
							continue
						}
						n := call.Call.StaticCallee().Name()
						if n != "Unlock" && n != "RUnlock" {
							continue
						}
						for _, k := range a.ClassOf(call.Call.Args[0]) {
							if strings.Contains(why, k) {
								marks[cb] = true
							}
						}
					}
				}
				if len(marks) > 0 && mustPassThrough(cl.Blocks[0], func(x *ssa.BasicBlock) bool { return marks[x] }) {
					okDefer = true
				}
			}
		}
		if okDefer {
			r.Ok(rule, fk, "acquire/release", c.P.Pos(fn.Pos()), "released by a deferred closure on every path")
		} else {
			r.Bad(rule, fk, "acquire/release", c.P.Pos(fn.Pos()), "the function "+why+": some exit leaves the lock held, and the next acquirer blocks for ever")
		}
	}
}

// blockingUnderLockReviewed: the blocking channel operations that run while sharedData.mu may be held, each read and found bounded.
var blockingUnderLockReviewed = map[string]string{
	"(*pkg/server.BgpServer).handleMGMTOp":   "reply on the per-operation errCh; the requester (mgmtOperation) is already blocked in the receive on it, and takes no lock",
	"(*pkg/server.BgpServer).deleteNeighbor": "fsm.deconfiguredNotification has capacity 1 and deleteNeighbor is its only writer; stopNeighbor then removes the peer from neighborMap under the same exclusive lock, so the same peer cannot be deleted (and written to) twice — audited against the code; the one way the removal could miss the map entry (State.NeighborAddress rewritten for an admin-down peer, which changed peer.ID()) was finding F31 and is repaired",
	"(*pkg/server.bfdServer).AddPeer":        "select with the server-stopped alternative; the BFD loop and the goroutines it waits for do not need the management context (verified by E1c.counterpart-independent)",
	"(*pkg/server.bfdServer).DeletePeer":     "select with the server-stopped alternative; the BFD loop and the goroutines it waits for do not need the management context (verified by E1c.counterpart-independent)",
	"(*pkg/server.bfdServer).Start":          "select with the server-stopped alternative; the BFD loop and the goroutines it waits for do not need the management context (verified by E1c.counterpart-independent)",
	"(*pkg/server.watcher).Stop":             "drains realCh after the watcher was unregistered; the producer loop does not need the management context (verified by E1c.counterpart-independent)",
	"(*pkg/server.watcher).notify":           "write to an unbounded (infinite) channel: never blocks",
	"pkg/server.sendfsmOutgoingMsg":          "write to the peer's unbounded (infinite) outgoing channel: never blocks",
}

// ruleBlockingUnderLock: nothing new blocks on a channel while the shared server lock may be held.
func (c *Ctx) ruleBlockingUnderLock() {
	a := c.lockAnalysis()
	r := c.R
	rule := "E1c.blocking-under-lock"
	r.Rule(rule, "no blocking call while the lock is held: a blocking channel operation (send, receive, or select without default) in pkg/server or the table package that can run while sharedData.mu is held is one of the reviewed sites (bounded by construction: capacity-1 reply channels, unbounded channels, selects with a stop alternative); any other such operation can park the management context — and with it every API call and every peer's FSM callback — on a slow consumer", 8)
	n := map[string]int{}
	for _, fn := range c.P.FuncsIn("pkg/server", "internal/pkg/table") {
		for _, b := range fn.Blocks {
			for _, in := range b.Instrs {
				kind := ""
				switch x := in.(type) {
				case *ssa.Send:
					kind = "send"
				case *ssa.Select:
					if x.Blocking {
						kind = "select"
					}
				case *ssa.UnOp:
					if x.Op == token.ARROW {
						kind = "receive"
					}
				}
				if kind == "" {
					continue
				}
				may, _, reached := a.At(in)
				if !reached || may[lkShared] == 0 {
					continue
				}
				fk := ir.OuterKey(fn)
				n[fk+kind]++
				cons := fmt.Sprintf("%s #%d", kind, n[fk+kind])
				if why, ok := blockingUnderLockReviewed[fk]; ok {
					r.Except(rule, fk, cons, c.P.InstrPos(in), why)
				} else {
					r.Bad(rule, fk, cons, c.P.InstrPos(in), "a blocking channel "+kind+" can run while sharedData.mu is held ("+may.String()+"): if the other side is not ready the server's management context stops")
				}
			}
		}
	}
}

// ruleWaitGroupPairing: Add before go, Done on every path of the goroutine.
func (c *Ctx) ruleWaitGroupPairing() {
	r := c.R
	rule := "E1d.waitgroup"
	r.Rule(rule, "WaitGroup pairing in pkg/server: (a) every function that signals a WaitGroup does so on every path to its exits — by a deferred Done, or by a Done that all paths pass; (b) every go statement that starts such a function is dominated, in the starting function, by an Add on a WaitGroup; a goroutine that can finish without Done, or is started without Add, makes Wait block for ever or return early (leak or use-after-stop)", 8)
	isWG := func(call *ssa.CallCommon, name string) bool {
		callee := call.StaticCallee()
		if callee == nil || callee.Name() != name || callee.Signature.Recv() == nil {
			return false
		}
		n := ir.NamedOf(callee.Signature.Recv().Type())
		return n != nil && n.Obj().Pkg() != nil && n.Obj().Pkg().Path() == "sync" && n.Obj().Name() == "WaitGroup"
	}
	signals := map[*ssa.Function]bool{}
	for _, fn := range c.P.FuncsIn("pkg/server") {
		if fn.Blocks == nil {
			continue
		}
		var deferred []*ssa.Defer
		marks := map[*ssa.BasicBlock]bool{}
		nDone := 0
		for _, b := range fn.Blocks {
			for _, in := range b.Instrs {
				switch x := in.(type) {
				case *ssa.Defer:
					if isWG(&x.Call, "Done") {
						deferred = append(deferred, x)
						nDone++
					}
					if mc, ok := x.Call.Value.(*ssa.MakeClosure); ok {
						cl := mc.Fn.(*ssa.Function)
						cm := map[*ssa.BasicBlock]bool{}
						for _, cb := range cl.Blocks {
							for _, ci := range cb.Instrs {
								if cc, ok := ci.(*ssa.Call); ok && isWG(&cc.Call, "Done") {
									cm[cb] = true
								}
							}
						}
						if len(cm) > 0 {
							nDone++
							if mustPassThrough(cl.Blocks[0], func(b *ssa.BasicBlock) bool { return cm[b] }) {
								deferred = append(deferred, x)
							}
						}
					}
				case *ssa.Call:
					if isWG(&x.Call, "Done") {
						marks[b] = true
						nDone++
					}
				}
			}
		}
		if nDone == 0 {
			continue
		}
		signals[fn] = true
		fk := ir.FuncKey(fn)
		ok := false
		for _, d := range deferred {
			// a defer executed on every path: its block dominates every exit
			all := true
			for _, b := range fn.Blocks {
				if b == fn.Recover {
					continue
				}
				if ir.IsExit(b) && !d.Block().Dominates(b) {
					all = false
				}
			}
			if all {
				ok = true
			}
		}
		if !ok && len(marks) > 0 && mustPassThrough(fn.Blocks[0], func(b *ssa.BasicBlock) bool { return marks[b] }) {
			ok = true
		}
		if ok {
			r.Ok(rule, fk, "Done on every path", c.P.Pos(fn.Pos()), "deferred at entry or passed by all paths")
		} else {
			r.Bad(rule, fk, "Done on every path", c.P.Pos(fn.Pos()), "some path through the function reaches an exit without signalling the WaitGroup: the waiter blocks for ever")
		}
	}
	// (b) go statements
	n := map[string]int{}
	for _, fn := range c.P.FuncsIn("pkg/server") {
		for _, b := range fn.Blocks {
			for _, in := range b.Instrs {
				g, ok := in.(*ssa.Go)
				if !ok {
					continue
				}
				starts := false
				for _, callee := range c.P.Callees(g) {
					if signals[callee] {
						starts = true
					}
				}
				if !starts {
					continue
				}
				fk := ir.OuterKey(fn)
				n[fk]++
				cons := fmt.Sprintf("go #%d", n[fk])
				added := false
				walk := func(f *ssa.Function) {
					for _, b2 := range f.Blocks {
						for _, in2 := range b2.Instrs {
							if call, ok := in2.(*ssa.Call); ok && isWG(&call.Call, "Add") {
								if f != fn || dominatesInstr(call, g) {
									added = true
								}
							}
						}
					}
				}
				walk(fn)
				if !added && fn.Parent() != nil {
					// the Add may be in the enclosing function before the closure is invoked
					for _, b2 := range fn.Parent().Blocks {
						for _, in2 := range b2.Instrs {
							if call, ok := in2.(*ssa.Call); ok && isWG(&call.Call, "Add") {
								added = true
							}
						}
					}
				}
				if added {
					r.Ok(rule, fk, cons, c.P.InstrPos(g), "Add precedes the go statement")
				} else {
					r.Bad(rule, fk, cons, c.P.InstrPos(g), "a goroutine that signals a WaitGroup is started without a preceding Add: Wait can return before it finishes (or Done panics on a negative counter)")
				}
			}
		}
	}
}

// ruleHandoverCapacity: a goroutine that must terminate never parks on an unbuffered hand-over.
func (c *Ctx) ruleHandoverCapacity() {
	r := c.R
	rule := "E1e.handover-capacity"
	r.Rule(rule, "goroutine termination: a function that runs as a WaitGroup-counted goroutine (it signals Done, or is called directly by one that does) and hands a result over with a bare channel send writes to a channel that has room for it — every make(chan) that can reach that send (through parameters, go statements and struct fields) has capacity ≥ 1 — because the reader may already have moved on; with an unbuffered channel the goroutine parks for ever and the Wait that collects it never returns", 2)
	isWGDone := func(call *ssa.CallCommon) bool {
		callee := call.StaticCallee()
		if callee == nil || callee.Name() != "Done" || callee.Signature.Recv() == nil {
			return false
		}
		n := ir.NamedOf(callee.Signature.Recv().Type())
		return n != nil && n.Obj().Pkg() != nil && n.Obj().Pkg().Path() == "sync" && n.Obj().Name() == "WaitGroup"
	}
	fieldStores := map[*types.Var][]ssa.Value{}
	for _, fn := range c.P.FuncsIn("pkg/server") {
		for _, b := range fn.Blocks {
			for _, in := range b.Instrs {
				if st, ok := in.(*ssa.Store); ok {
					if fa, ok := st.Addr.(*ssa.FieldAddr); ok {
						if _, isChan := st.Val.Type().Underlying().(*types.Chan); isChan {
							fieldStores[fieldVarOf(fa)] = append(fieldStores[fieldVarOf(fa)], st.Val)
						}
					}
				}
			}
		}
	}
	var resolve func(v ssa.Value, depth int, out *[]*ssa.MakeChan, unknown *bool)
	resolve = func(v ssa.Value, depth int, out *[]*ssa.MakeChan, unknown *bool) {
		if depth > 6 {
			*unknown = true
			return
		}
		switch x := v.(type) {
		case *ssa.MakeChan:
			*out = append(*out, x)
		case *ssa.ChangeType:
			resolve(x.X, depth+1, out, unknown)
		case *ssa.Phi:
			for _, e := range x.Edges {
				resolve(e, depth+1, out, unknown)
			}
		case *ssa.UnOp:
			if fa, ok := x.X.(*ssa.FieldAddr); ok {
				vals := fieldStores[fieldVarOf(fa)]
				if len(vals) == 0 {
					*unknown = true
				}
				for _, sv := range vals {
					resolve(sv, depth+1, out, unknown)
				}
			} else {
				*unknown = true
			}
		case *ssa.Parameter:
			fn := x.Parent()
			idx := -1
			for i, p := range fn.Params {
				if p == x {
					idx = i
				}
			}
			callers := c.P.Callers(fn)
			if len(callers) == 0 || idx < 0 {
				*unknown = true
				return
			}
			for _, e := range callers {
				ci, ok := e.Site.(ssa.CallInstruction)
				if !ok || ci.Common().StaticCallee() != fn || idx >= len(ci.Common().Args) {
					*unknown = true
					continue
				}
				resolve(ci.Common().Args[idx], depth+1, out, unknown)
			}
		default:
			*unknown = true
		}
	}
	n := map[string]int{}
	counted := map[*ssa.Function]bool{}
	for _, fn := range c.P.FuncsIn("pkg/server") {
		if fn.Blocks == nil {
			continue
		}
		signals := false
		for _, b := range fn.Blocks {
			for _, in := range b.Instrs {
				switch x := in.(type) {
				case *ssa.Defer:
					if isWGDone(&x.Call) {
						signals = true
					}
					if mc, ok := x.Call.Value.(*ssa.MakeClosure); ok {
						for _, cb := range mc.Fn.(*ssa.Function).Blocks {
							for _, ci := range cb.Instrs {
								if cc, ok := ci.(*ssa.Call); ok && isWGDone(&cc.Call) {
									signals = true
								}
							}
						}
					}
				case *ssa.Call:
					if isWGDone(&x.Call) {
						signals = true
					}
				}
			}
		}
		if !signals {
			continue
		}
		counted[fn] = true
		// the functions such a goroutine body calls directly run on the counted goroutine too
		for _, b := range fn.Blocks {
			for _, in := range b.Instrs {
				if call, ok := in.(*ssa.Call); ok {
					if cal := call.Call.StaticCallee(); cal != nil && cal.Blocks != nil && cal.Pkg == fn.Pkg {
						counted[cal] = true
					}
				}
			}
		}
	}
	for _, fn := range c.P.FuncsIn("pkg/server") {
		if !counted[fn] {
			continue
		}
		for _, b := range fn.Blocks {
			for _, in := range b.Instrs {
				s, ok := in.(*ssa.Send)
				if !ok {
					continue
				}
				var mcs []*ssa.MakeChan
				unknown := false
				resolve(s.Chan, 0, &mcs, &unknown)
				fk := ir.FuncKey(fn)
				n[fk]++
				cons := fmt.Sprintf("bare send #%d", n[fk])
				if len(mcs) == 0 {
					r.Add(oblT(rule, fk, cons, c.P.InstrPos(s), "ok", "channel construction not resolved: not decided", nil, true))
					continue
				}
				if why, ok := handoverReviewed[fk]; ok {
					r.Except(rule, fk, cons, c.P.InstrPos(s), why)
					continue
				}
				bad := ""
				for _, mc := range mcs {
					k, ok := mc.Size.(*ssa.Const)
					if !ok || k.Value == nil || k.Int64() < 1 {
						bad = c.P.InstrPos(mc)
					}
				}
				if bad != "" {
					r.Bad(rule, fk, cons, c.P.InstrPos(s), "the channel made at "+bad+" is unbuffered: when the reader has already left the state that receives, this goroutine blocks in the send for ever and the WaitGroup that collects it never completes")
				} else {
					r.Ok(rule, fk, cons, c.P.InstrPos(s), fmt.Sprintf("%d construction sites, all with capacity ≥ 1", len(mcs)))
				}
			}
		}
	}
}

// handoverReviewed: bare sends on unbuffered channels from counted goroutines that cannot park.
var handoverReviewed = map[string]string{
	"(*pkg/server.BgpServer).handleMGMTOp": "request/response rendezvous: mgmtOperation creates the reply channel, hands the request over and then blocks in the receive on it; the reply is sent exactly once per request",
}

// apiCallbackUnderLockReviewed: API methods that run the caller's callback inside the management context by design.
var apiCallbackUnderLockReviewed = map[string]string{
	"(*pkg/server.BgpServer).ListVrf":             "the callback runs inside the management operation that walks the VRF map; it receives a converted copy and the gRPC layer only appends to a slice",
	"(*pkg/server.BgpServer).ListDynamicNeighbor": "the callback runs inside the management operation that walks the peer-group map; it receives a converted copy and the gRPC layer only appends to a slice",
}

// ruleAPICallbackUnderLock: a callback supplied by an API caller is not run while the server lock is held.
func (c *Ctx) ruleAPICallbackUnderLock() {
	a := c.lockAnalysis()
	r := c.R
	rule := "E1c.api-callback-under-lock"
	r.Rule(rule, "the callbacks that exported BgpServer methods take from their callers (ListPath, ListPeer, Watch… — in the gRPC layer they end in stream.Send, which blocks on the client) are invoked with sharedData.mu not held, except at the two reviewed listing methods that run inside a management operation: a consumer that needs another API call to make progress, or is merely slow, would otherwise stop the management context and with it every peer", 5)
	bs := c.P.NamedType("pkg/server", "BgpServer")
	if bs == nil {
		r.Undec(rule, "-", "anchor:BgpServer", "-", "not found")
		return
	}
	for _, fn := range c.P.FuncsIn("pkg/server") {
		outer := ir.Outer(fn)
		if outer.Signature.Recv() == nil || ir.NamedOf(ir.Deref(outer.Signature.Recv().Type())) != bs || !token.IsExported(outer.Name()) {
			continue
		}
		// the func-typed parameters of the exported method
		cb := map[*ssa.Parameter]bool{}
		for _, p := range outer.Params {
			if _, ok := p.Type().Underlying().(*types.Signature); ok {
				cb[p] = true
			}
		}
		if len(cb) == 0 {
			continue
		}
		isCallback := func(v ssa.Value) bool {
			for i := 0; i < 4; i++ {
				switch x := v.(type) {
				case *ssa.Parameter:
					return cb[x]
				case *ssa.UnOp:
					v = x.X
					continue
				case *ssa.FreeVar:
					cell := cellOfFreeVar(x)
					if al, ok := cell.(*ssa.Alloc); ok && al.Referrers() != nil {
						for _, ref := range *al.Referrers() {
							if st, ok := ref.(*ssa.Store); ok && st.Addr == ssa.Value(al) {
								if p, ok := st.Val.(*ssa.Parameter); ok && cb[p] {
									return true
								}
							}
						}
					}
					return false
				case *ssa.Alloc:
					if x.Referrers() != nil {
						for _, ref := range *x.Referrers() {
							if st, ok := ref.(*ssa.Store); ok && st.Addr == ssa.Value(x) {
								if p, ok := st.Val.(*ssa.Parameter); ok && cb[p] {
									return true
								}
							}
						}
					}
					return false
				}
				return false
			}
			return false
		}
		n := 0
		for _, b := range fn.Blocks {
			for _, in := range b.Instrs {
				call, ok := in.(*ssa.Call)
				if !ok || call.Call.IsInvoke() || call.Call.StaticCallee() != nil || !isCallback(call.Call.Value) {
					continue
				}
				n++
				fk := ir.FuncKey(outer)
				cons := fmt.Sprintf("caller's callback invoked #%d", n)
				may, _, reached := a.At(call)
				held := reached && may[lkShared] != locks.None
				switch {
				case !held:
					r.Ok(rule, fk, cons, c.P.InstrPos(call), "sharedData.mu not held")
				case apiCallbackUnderLockReviewed[fk] != "":
					r.Except(rule, fk, cons, c.P.InstrPos(call), apiCallbackUnderLockReviewed[fk])
				default:
					r.Bad(rule, fk, cons, c.P.InstrPos(call), "the caller's callback runs while sharedData.mu is held ("+may.String()+"): a slow or re-entrant consumer stops the management context")
				}
			}
		}
	}
}
