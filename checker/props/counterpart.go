package props

import (
	"go/types"
	"sort"
	"strings"

	"golang.org/x/tools/go/ssa"

	"gbverif/ir"
)

// counterpartRoots: for the reviewed blocking sites whose justification is "the other side of the channel does not
// need the management context", the goroutine functions that are that other side. The claim is verified, not taken
// on trust: ruleCounterpartIndependent follows what these goroutines do synchronously.
var counterpartRoots = map[string][]string{
	"(*pkg/server.bfdServer).AddPeer":    {"(*pkg/server.bfdServer).loop"},
	"(*pkg/server.bfdServer).DeletePeer": {"(*pkg/server.bfdServer).loop"},
	"(*pkg/server.bfdServer).Start":      {"(*pkg/server.bfdServer).loop"},
	"(*pkg/server.watcher).Stop":         {"(*pkg/server.watcher).loop"},
}

// ruleCounterpartIndependent: a goroutine the management context may wait for never waits for the management context.
func (c *Ctx) ruleCounterpartIndependent(rule string, min int) {
	r := c.R
	a := c.lockAnalysis()
	r.Rule(rule, "the reviewed blocking channel operations under sharedData.mu whose consumer is another goroutine (the BFD server loop, a watcher's loop) are only bounded if that goroutine can always make progress without the management context. Followed from the consumer: every function it calls synchronously (static and VTA-resolved calls and defers; go statements start something it does not wait for), and, where it waits on a sync.WaitGroup field, every function that signals Done on that field (the goroutines it waits for) and what they call. None of them calls BgpServer.mgmtOperation or acquires sharedData.mu — otherwise the management goroutine, blocked in the send, and the consumer, blocked behind a management operation, wait for each other for ever", min)
	mgmt := c.P.Func("(*pkg/server.BgpServer).mgmtOperation")
	if mgmt == nil {
		r.Undec(rule, "-", "anchor:(*BgpServer).mgmtOperation", "-", "not found")
		return
	}
	// who signals Done on which WaitGroup field
	doneBy := map[*types.Var][]*ssa.Function{}
	wgField := func(v ssa.Value) *types.Var {
		fa, ok := v.(*ssa.FieldAddr)
		if !ok {
			return nil
		}
		st, ok := ir.Deref(fa.X.Type()).Underlying().(*types.Struct)
		if !ok || fa.Field >= st.NumFields() {
			return nil
		}
		return st.Field(fa.Field)
	}
	for _, fn := range c.P.FuncsIn("pkg/server") {
		for _, b := range fn.Blocks {
			for _, in := range b.Instrs {
				ci, ok := in.(ssa.CallInstruction)
				if !ok {
					continue
				}
				cal := ci.Common().StaticCallee()
				if cal == nil || cal.String() != "(*sync.WaitGroup).Done" || len(ci.Common().Args) == 0 {
					continue
				}
				if f := wgField(ci.Common().Args[0]); f != nil {
					doneBy[f] = append(doneBy[f], fn) // the function (or literal) that signals: Wait returns only after it has run
				}
			}
		}
	}
	bySite := map[string][]string{} // consumer -> blocking sites that rely on it
	for site, roots := range counterpartRoots {
		for _, rk := range roots {
			bySite[rk] = append(bySite[rk], site[strings.LastIndex(site, ".")+1:])
		}
	}
	var rootKeys []string
	for rk := range bySite {
		rootKeys = append(rootKeys, rk)
		sort.Strings(bySite[rk])
	}
	sort.Strings(rootKeys)
	for _, rootKey := range rootKeys {
		{
			site := rootKey
			cons := "needs no management context (relied on by " + strings.Join(bySite[rootKey], ", ") + ")"
			root := c.P.Func(rootKey)
			if root == nil || root.Blocks == nil {
				r.Undec(rule, site, cons, "-", "consumer goroutine not found: re-review the exception")
				continue
			}
			type item struct {
				f    *ssa.Function
				path []string
			}
			seen := map[*ssa.Function]bool{root: true}
			queue := []item{{root, []string{ir.FuncKey(root)}}}
			bad := ""
			var badPath []string
			n := 0
			for len(queue) > 0 && bad == "" {
				it := queue[0]
				queue = queue[1:]
				n++
				push := func(g *ssa.Function, how string) {
					if g == nil || seen[g] || g.Blocks == nil || !c.P.InModule(g) {
						return
					}
					seen[g] = true
					queue = append(queue, item{g, append(append([]string{}, it.path...), how+ir.FuncKey(g))})
				}
				var walk func(f *ssa.Function)
				walk = func(f *ssa.Function) {
					// literals of f run as part of it (called in place, deferred, handed to sync.Once.Do, sort.Slice …)
					// unless a go statement starts them
					started := map[*ssa.Function]bool{}
					for _, b := range f.Blocks {
						for _, in := range b.Instrs {
							if g, ok := in.(*ssa.Go); ok {
								switch v := g.Call.Value.(type) {
								case *ssa.MakeClosure:
									started[v.Fn.(*ssa.Function)] = true
								case *ssa.Function:
									started[v] = true
								}
							}
						}
					}
					for _, an := range f.AnonFuncs {
						if !started[an] && !seen[an] && an.Blocks != nil {
							seen[an] = true
							walk(an)
						}
					}
					for _, b := range f.Blocks {
						for _, in := range b.Instrs {
							ci, ok := in.(ssa.CallInstruction)
							if !ok {
								if mc, ok := in.(*ssa.MakeClosure); ok {
									_ = mc
								}
								continue
							}
							if _, isGo := in.(*ssa.Go); isGo {
								continue // started, not waited for
							}
							com := ci.Common()
							if cal := com.StaticCallee(); cal != nil {
								switch cal.String() {
								case "(*sync.WaitGroup).Wait":
									if len(com.Args) > 0 {
										if fld := wgField(com.Args[0]); fld != nil {
											for _, g := range doneBy[fld] {
												push(g, "waits (WaitGroup "+fld.Name()+") for ")
											}
										}
									}
									continue
								case "(*sync.RWMutex).Lock", "(*sync.RWMutex).RLock", "(*sync.Mutex).Lock":
									if len(com.Args) > 0 {
										for _, k := range a.ClassOf(com.Args[0]) {
											if k == lkShared && bad == "" {
												bad = "acquires " + lkShared + " at " + c.P.InstrPos(in)
												badPath = it.path
											}
										}
									}
									continue
								}
							}
							for _, cal := range c.P.Callees(ci) {
								if cal == mgmt {
									if bad == "" {
										bad = "calls BgpServer.mgmtOperation at " + c.P.InstrPos(in)
										badPath = it.path
									}
									continue
								}
								// a function literal called or deferred in place is part of this function
								if cal.Parent() != nil && ir.Outer(cal) == ir.Outer(f) {
									if !seen[cal] {
										seen[cal] = true
										walk(cal)
									}
									continue
								}
								push(cal, "calls ")
							}
						}
					}
				}
				walk(it.f)
			}
			pos := c.P.Pos(root.Pos())
			if bad == "" {
				r.Ok(rule, site, cons, pos, "none of the "+itoa(n)+" functions the consumer runs or waits for needs the management context")
			} else {
				r.Add(obl(rule, site, cons, pos, "violation",
					"the goroutine on the other side of the blocking operations in "+strings.Join(bySite[rootKey], ", ")+" can itself wait for the management context: "+strings.Join(badPath, " → ")+" "+bad+" — while the management goroutine is parked in one of them neither can proceed",
					badPath))
			}
		}
	}
}
