package props

import (
	"encoding/json"
	"fmt"
	"go/types"
	"os"
	"path/filepath"
	"sort"
	"strings"

	"golang.org/x/tools/go/ssa"

	"gbverif/ir"
	"gbverif/own"
)

// writeSig: per function and pointer-like parameter, what the function (transitively, through its callees) writes
// into memory reachable from that parameter.
type writeSig struct {
	Func   string              `json:"func"`
	File   string              `json:"file"`
	Writes map[string][]string `json:"writes"` // "param i" -> sorted sink kinds ("store T.field", "append", "copy", "map-update", …)
}

func sinkKey(p *ir.Program, s own.Sink) string {
	o := s.Origin()
	k := o.Kind
	if i := strings.Index(k, ":"); i > 0 {
		k = k[:i] // mutator:<callee> / via:<callee>: the callee is named by the origin below
	}
	if o.Field != "" {
		return k + " " + o.Field
	}
	return k
}

func pointerLike(t types.Type) bool {
	switch t.Underlying().(type) {
	case *types.Pointer, *types.Slice, *types.Map:
		return true
	}
	return false
}

func (c *Ctx) writeSigs(pkgs []string, fileFilter func(string) bool) []writeSig {
	e := c.ownEng()
	var out []writeSig
	for _, short := range pkgs {
		for _, fn := range c.P.FuncsIn(short) {
			if fn.Parent() != nil || fn.Blocks == nil {
				continue
			}
			file := c.P.Pos(fn.Pos())
			if i := strings.LastIndex(file, ":"); i > 0 {
				file = file[:i]
			}
			if strings.HasSuffix(file, ".pb.go") || strings.HasSuffix(file, "_string.go") || file == "-" {
				continue
			}
			if fileFilter != nil && !fileFilter(file) {
				continue
			}
			sig := writeSig{Func: ir.FuncKey(fn), File: file, Writes: map[string][]string{}}
			for i, p := range fn.Params {
				if !pointerLike(p.Type()) {
					continue
				}
				set := map[string]bool{}
				// every sink, not one representative per call site: which one own.Dedup keeps depends on positions
				for _, s := range e.WritesParam(fn, i) {
					if s.Origin().Field == "" {
						continue // a write whose target the engine cannot name: its wording depends on how the code is written
					}
					set[sinkKey(c.P, s)] = true
				}
				sig.Writes[fmt.Sprintf("param %d", i)] = sortedKeys(set)
			}
			if len(sig.Writes) > 0 {
				out = append(out, sig)
			}
		}
	}
	sort.Slice(out, func(i, j int) bool { return out[i].Func < out[j].Func })
	return out
}

// ruleWriteRatchet: a function does not start writing into something it was handed.
func (c *Ctx) ruleWriteRatchet(rule string, pkgs []string, fileFilter func(string) bool, baselineFile string, min int) {
	r := c.R
	r.Rule(rule, "new-write ratchet: the committed baseline records, per function and pointer / slice / map parameter (receiver included), the kinds of write the function performs — itself or through its callees — into memory reachable from that parameter (ownership engine E2: stores by field, element stores, append-in-place, copy, map updates, in-place library mutators). A function of the reviewed tree that now writes something of a kind it did not write before through the same parameter has started to modify what it was only handed: a copy replaced by a share, an attribute rewritten in place, a list edited before the request is validated. Functions that did not exist, and writes that disappear, are not judged", min)
	var base []writeSig
	b, err := os.ReadFile(filepath.Join(homeDir(), baselineFile))
	if err != nil || json.Unmarshal(b, &base) != nil {
		r.Undec(rule, "-", "baseline:"+baselineFile, "-", "baseline file missing or unreadable")
		return
	}
	byFunc := map[string]writeSig{}
	for _, w := range c.writeSigs(pkgs, fileFilter) {
		byFunc[w.Func] = w
	}
	for _, bs := range base {
		inPkgs := false
		for _, pk := range pkgs {
			if strings.Contains(bs.Func, pk+".") {
				inPkgs = true
			}
		}
		if !inPkgs || (fileFilter != nil && !fileFilter(bs.File)) {
			continue
		}
		cons := fmt.Sprintf("%d pointer-like parameters", len(bs.Writes))
		cur, ok := byFunc[bs.Func]
		if !ok {
			r.Add(oblT(rule, bs.Func, cons, bs.File, "ok", "the function no longer exists: not decided", nil, true))
			continue
		}
		if len(cur.Writes) != len(bs.Writes) {
			r.Add(oblT(rule, bs.Func, cons, bs.File, "ok", "the function's parameters changed: not decided", nil, true))
			continue
		}
		newWrite := ""
		var params []string
		for p := range bs.Writes {
			params = append(params, p)
		}
		sort.Strings(params)
		for _, p := range params {
			was := map[string]bool{}
			for _, k := range bs.Writes[p] {
				was[k] = true
			}
			for _, k := range cur.Writes[p] {
				if !was[k] {
					newWrite = p + ": " + k
				}
			}
		}
		if newWrite == "" {
			r.Ok(rule, bs.Func, cons, bs.File, "no new kind of write through any parameter")
		} else {
			r.Bad(rule, bs.Func, cons, bs.File, "the function now writes into memory reachable from "+newWrite+" — on the reviewed tree it did not: what the caller handed over is modified in place")
		}
	}
}

var _ = ssa.Value(nil)
