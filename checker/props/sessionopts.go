package props

import (
	"fmt"
	"go/token"
	"sort"

	"golang.org/x/tools/go/ssa"

	"gbverif/ir"
)

// ruleSessionOptionsRefreshed (E6 must-assign): in fsm.stateChange every per-session option
// field that is written in the ESTABLISHED branch is written on EVERY path through that
// branch, so no session runs with a flag left over from the previous one (or its zero value).
func (c *Ctx) ruleSessionOptionsRefreshed(rule string, only map[string]bool, min int) {
	r := c.R
	r.Rule(rule, "must-assign: in the function that publishes the negotiated session options (the ESTABLISHED branch of fsm.stateChange), each option field of the fsm written there is written on every path from the branch entry to the function exit", min)
	fn := c.P.Func("(*pkg/server.fsm).stateChange")
	st := c.P.NamedType("pkg/packet/bgp", "FSMState")
	if fn == nil || st == nil || len(fn.Params) < 2 {
		r.Undec(rule, "-", "anchor:fsm.stateChange", "-", "function not found")
		return
	}
	est, ok := constInt(constsOf(st)["BGP_FSM_ESTABLISHED"])
	if !ok {
		r.Undec(rule, ir.FuncKey(fn), "anchor:BGP_FSM_ESTABLISHED", "-", "constant not found")
		return
	}
	next := fn.Params[1]
	var entry *ssa.BasicBlock
	for _, b := range fn.Blocks {
		iff, ok := b.Instrs[len(b.Instrs)-1].(*ssa.If)
		if !ok {
			continue
		}
		bo, ok := iff.Cond.(*ssa.BinOp)
		if !ok || bo.Op != token.EQL {
			continue
		}
		var k *ssa.Const
		if bo.X == ssa.Value(next) {
			k, _ = bo.Y.(*ssa.Const)
		} else if bo.Y == ssa.Value(next) {
			k, _ = bo.X.(*ssa.Const)
		}
		if k == nil || k.Value == nil {
			continue
		}
		if kv, ok := constInt(k.Value); ok && kv == est {
			entry = b.Succs[0]
		}
	}
	if entry == nil {
		r.Undec(rule, ir.FuncKey(fn), "anchor:case ESTABLISHED", c.P.Pos(fn.Pos()), "the branch on nextState == ESTABLISHED was not found")
		return
	}
	recv := fn.Params[0]
	// writes: field name -> blocks containing a write (plain store or .Store() on an atomic field)
	writes := map[string]map[*ssa.BasicBlock]bool{}
	pos := map[string]token.Pos{}
	note := func(name string, b *ssa.BasicBlock, p token.Pos) {
		if writes[name] == nil {
			writes[name] = map[*ssa.BasicBlock]bool{}
			pos[name] = p
		}
		writes[name][b] = true
	}
	for _, b := range fn.Blocks {
		if b != entry && !entry.Dominates(b) {
			continue
		}
		for _, in := range b.Instrs {
			switch x := in.(type) {
			case *ssa.Store:
				if fa, ok := x.Addr.(*ssa.FieldAddr); ok && isParamValue(fa.X, recv) {
					note(ir.FieldOf(fa).Name(), b, x.Pos())
				}
			case *ssa.Call:
				callee := x.Call.StaticCallee()
				if callee != nil && callee.Name() == "Store" && len(x.Call.Args) > 0 {
					if fa, ok := x.Call.Args[0].(*ssa.FieldAddr); ok && isParamValue(fa.X, recv) {
						note(ir.FieldOf(fa).Name(), b, x.Pos())
					}
				}
				// a setter of the same object: the fields it writes on every one of its paths
				if callee != nil && callee.Blocks != nil && c.P.InModule(callee) && callee.Signature.Recv() != nil && len(x.Call.Args) > 0 && isParamValue(x.Call.Args[0], recv) {
					for _, f := range mustWriteFields(callee) {
						note(f, b, x.Pos())
					}
				}
			}
		}
	}
	var names []string
	for n := range writes {
		if only == nil || only[n] {
			names = append(names, n)
		}
	}
	sort.Strings(names)
	fk := ir.FuncKey(fn)
	for _, name := range names {
		// search a path entry -> exit avoiding blocks that write the field
		seen := map[*ssa.BasicBlock]bool{}
		work := []*ssa.BasicBlock{entry}
		escaped := false
		for len(work) > 0 && !escaped {
			b := work[0]
			work = work[1:]
			if seen[b] || writes[name][b] {
				continue
			}
			seen[b] = true
			if ir.IsExit(b) {
				escaped = true
				break
			}
			work = append(work, b.Succs...)
		}
		cons := "fsm." + name
		if escaped {
			r.Bad(rule, fk, cons, c.P.Pos(pos[name]), "some path through the ESTABLISHED branch leaves the function without refreshing this per-session option: the session would run with the previous session's value")
		} else {
			r.Ok(rule, fk, cons, c.P.Pos(pos[name]), fmt.Sprintf("written on every path through the ESTABLISHED branch (%d writing blocks)", len(writes[name])))
		}
	}
	if only != nil {
		for n := range only {
			if writes[n] == nil {
				r.Bad(rule, fk, "fsm."+n, c.P.Pos(fn.Pos()), "this per-session option is no longer written in the ESTABLISHED branch at all")
			}
		}
	}
}

// isParamValue: v is the parameter itself or a load of the cell the parameter was spilled to
// (parameters captured by a closure live in a heap cell that is only ever stored once).
func isParamValue(v ssa.Value, p *ssa.Parameter) bool {
	if v == ssa.Value(p) {
		return true
	}
	u, ok := v.(*ssa.UnOp)
	if !ok || u.Op != token.MUL {
		return false
	}
	al, ok := u.X.(*ssa.Alloc)
	if !ok {
		return false
	}
	n := 0
	good := false
	for _, ref := range *al.Referrers() {
		if st, ok := ref.(*ssa.Store); ok && st.Addr == ssa.Value(al) {
			n++
			good = st.Val == ssa.Value(p)
		}
	}
	return n == 1 && good
}

// mustWriteFields: the fields of its receiver that a method writes (plain store or atomic .Store) on every path
// from entry to exit.
func mustWriteFields(fn *ssa.Function) []string {
	if len(fn.Params) == 0 {
		return nil
	}
	recv := fn.Params[0]
	writes := map[string]map[*ssa.BasicBlock]bool{}
	note := func(name string, b *ssa.BasicBlock) {
		if writes[name] == nil {
			writes[name] = map[*ssa.BasicBlock]bool{}
		}
		writes[name][b] = true
	}
	for _, b := range fn.Blocks {
		for _, in := range b.Instrs {
			switch x := in.(type) {
			case *ssa.Store:
				if fa, ok := x.Addr.(*ssa.FieldAddr); ok && isParamValue(fa.X, recv) {
					note(ir.FieldOf(fa).Name(), b)
				}
			case *ssa.Call:
				callee := x.Call.StaticCallee()
				if callee != nil && callee.Name() == "Store" && len(x.Call.Args) > 0 {
					if fa, ok := x.Call.Args[0].(*ssa.FieldAddr); ok && isParamValue(fa.X, recv) {
						note(ir.FieldOf(fa).Name(), b)
					}
				}
			}
		}
	}
	var out []string
	for name, blocks := range writes {
		seen := map[*ssa.BasicBlock]bool{}
		work := []*ssa.BasicBlock{fn.Blocks[0]}
		escaped := false
		for len(work) > 0 && !escaped {
			b := work[0]
			work = work[1:]
			if seen[b] || blocks[b] {
				continue
			}
			seen[b] = true
			if ir.IsExit(b) {
				escaped = true
			}
			work = append(work, b.Succs...)
		}
		if !escaped {
			out = append(out, name)
		}
	}
	sort.Strings(out)
	return out
}
