package props

import (
	"fmt"
	"go/ast"
	"go/types"
	"sort"
	"strings"

	"golang.org/x/tools/go/ssa"

	"gbverif/ir"
	"gbverif/locks"
)

// calledFuncs: names of the functions/methods statically called inside an AST node.
func calledFuncs(n ast.Node, info *types.Info) map[string]bool {
	out := map[string]bool{}
	ast.Inspect(n, func(x ast.Node) bool {
		call, ok := x.(*ast.CallExpr)
		if !ok {
			return true
		}
		var id *ast.Ident
		switch f := call.Fun.(type) {
		case *ast.Ident:
			id = f
		case *ast.SelectorExpr:
			id = f.Sel
		}
		if id != nil {
			if fn, ok := info.Uses[id].(*types.Func); ok {
				out[fn.Name()] = true
			}
		}
		return true
	})
	return out
}

// staticCallsOf: the call instructions in fn (and its nested closures when deep) whose static callee has the given name.
func staticCallsOf(fn *ssa.Function, deep bool, names ...string) []*ssa.Call {
	var out []*ssa.Call
	var walk func(f *ssa.Function)
	walk = func(f *ssa.Function) {
		for _, b := range f.Blocks {
			for _, in := range b.Instrs {
				if call, ok := in.(*ssa.Call); ok && call.Call.StaticCallee() != nil {
					for _, n := range names {
						if call.Call.StaticCallee().Name() == n {
							out = append(out, call)
						}
					}
				}
			}
		}
		if deep {
			for _, an := range f.AnonFuncs {
				walk(an)
			}
		}
	}
	walk(fn)
	return out
}

// ruleRefreshExclusion: every place that records and queues advertisements for a peer holds that
// peer's route-refresh lock: shared in the incremental fan-out, exclusive in every full replay.
func (c *Ctx) ruleRefreshExclusion() {
	r := c.R
	rule := "E1.refresh-exclusion"
	r.Rule(rule, "every call that records (updateRoutes) or queues (sendfsmOutgoingMsg) advertisements for a peer holds that peer's routeRefreshInProgress lock in the interprocedural must-held set — shared inside the incremental fan-out (propagateUpdateToNeighbors), exclusive everywhere else (soft reset out, ROUTE-REFRESH, initial transfer, deferral expiry, RTC re-evaluation): a full replay is therefore serialised against incremental updates to the same peer", 20)
	a := c.lockAnalysis()
	incremental := map[string]bool{"(*pkg/server.BgpServer).propagateUpdateToNeighbors": true}
	for _, k := range []string{"(*pkg/server.peer).updateRoutes", "pkg/server.sendfsmOutgoingMsg"} {
		fn := c.P.Func(k)
		if fn == nil {
			r.Undec(rule, k, "anchor", "-", "not found")
			continue
		}
		ord := map[string]int{}
		ins := append([]locks.CallEdge{}, a.In[fn]...)
		sort.Slice(ins, func(i, j int) bool { return ins[i].Site.Pos() < ins[j].Site.Pos() })
		for _, e := range ins {
			pos := c.P.InstrPos(e.Site)
			outer := ir.OuterKey(e.Caller)
			cons := fn.Name() + " in " + ir.FuncKey(e.Caller)
			ord[cons]++
			cons = fmt.Sprintf("%s #%d", cons, ord[cons])
			_, must, reached := a.At(e.Site)
			if !reached {
				r.Add(oblT(rule, outer, cons, pos, "ok", "caller unreachable", nil, true))
				continue
			}
			need := locks.W
			kind := "full replay"
			if incremental[outer] {
				need = locks.R
				kind = "incremental fan-out"
			}
			if e.Async {
				r.Bad(rule, outer, cons, pos, "started asynchronously: the route-refresh lock cannot be held")
				continue
			}
			if must[lkRR] >= need {
				r.Ok(rule, outer, cons, pos, kind+": must-held "+must.String())
			} else {
				r.Add(obl(rule, outer, cons, pos, "violation", fmt.Sprintf("%s: needs %s(%s), must-held here is %s — a concurrent route change can be sent between this replay's read of the RIB and its enqueue, and then be overwritten by the stale replayed path", kind, lkRR, need, must), c.unlockedPath(a, e.Caller, lkRR, need)))
			}
		}
	}
}

// ruleSinglePipeline: who may evaluate export / import policy.
func (c *Ctx) ruleSinglePipeline() {
	r := c.R
	rule := "E6.single-pipeline"
	r.Rule(rule, "who-may-call: export policy is evaluated only inside the export pipeline (BgpServer.filterpath and the secondary-route filter — each between prePolicyFilterpath and postFilterpath) and the read-only adj-out view; import policy only in propagateUpdate and the read-only adj-in view. Soft reset, route refresh and initial transfer therefore cannot evaluate policy differently from the live path", 5)
	ap := c.P.Func("(*internal/pkg/table.RoutingPolicy).ApplyPolicy")
	if ap == nil {
		r.Undec(rule, "-", "anchor:ApplyPolicy", "-", "not found")
		return
	}
	dirs := constsOf(c.P.NamedType("internal/pkg/table", "PolicyDirection"))
	exportV, _ := constInt(dirs["POLICY_DIRECTION_EXPORT"])
	importV, _ := constInt(dirs["POLICY_DIRECTION_IMPORT"])
	allowed := map[int64]map[string]string{
		exportV: {
			"(*pkg/server.BgpServer).filterpath":                    "send",
			"(*pkg/server.BgpServer).sendSecondaryRoutes":           "send",
			"(*pkg/server.BgpServer).policyEvaluatedAdjRibOutPaths": "view",
		},
		importV: {
			"(*pkg/server.BgpServer).propagateUpdate":             "install",
			"(*pkg/server.BgpServer).policyAcceptedAdjRibInPaths": "view",
		},
	}
	for _, e := range c.P.Callers(ap) {
		call := e.Site.(ssa.CallInstruction)
		caller := e.Caller.Func
		if !c.P.InModule(caller) || strings.HasSuffix(caller.Pkg.Pkg.Path(), "internal/pkg/table") {
			continue
		}
		fk := ir.FuncKey(caller)
		pos := c.P.InstrPos(e.Site)
		k, ok := stripConv(call.Common().Args[len(call.Common().Args)-3]).(*ssa.Const)
		if !ok {
			r.Bad(rule, fk, "ApplyPolicy(direction)", pos, "policy direction is not a constant: cannot attribute this evaluation to a pipeline")
			continue
		}
		kv, _ := constInt(k.Value)
		// by enclosing function (closures are numbered by position) or a private helper extracted from it
		var akeys []string
		for k := range allowed[kv] {
			akeys = append(akeys, k)
		}
		sort.Strings(akeys)
		fam := c.familyKey(caller, akeys)
		role, ok := allowed[kv][fam]
		dname := "export"
		if kv == importV {
			dname = "import"
		}
		if !ok {
			r.Bad(rule, fk, "ApplyPolicy("+dname+")", pos, "policy is evaluated outside the single "+dname+" pipeline: routes handled here can be accepted or modified differently from what a fresh evaluation would do")
			continue
		}
		if role == "send" {
			pre := staticCallsOf(caller, false, "prePolicyFilterpath")
			post := staticCallsOf(caller, false, "postFilterpath")
			okPre := len(pre) > 0 && dominatesInstr(pre[0], e.Site)
			okPost := len(post) > 0 && reachesInstr(e.Site, post[0])
			if !okPre || !okPost {
				r.Bad(rule, fk, "ApplyPolicy("+dname+")", pos, "export policy evaluation is not bracketed by prePolicyFilterpath / postFilterpath")
				continue
			}
		}
		r.Ok(rule, fk, "ApplyPolicy("+dname+")", pos, role)
	}
}

// ruleReplayPartition: the full replay hands every candidate either to the accepted or to the filtered list.
func (c *Ctx) ruleReplayPartition() {
	r := c.R
	rule := "E6.replay-partition"
	r.Rule(rule, "in the full replay (getBestFromLocalCallbackLocked) every candidate goes through filterpath and lands in exactly one of the two lists handed to the callback: accepted (non-nil result) or filtered (filteredPathForPeer on the nil edge); in soft reset out the withdrawals are Clone(true) of filtered paths for which hasPathAlreadyBeenSent held", 2)
	fk := "(*pkg/server.BgpServer).getBestFromLocalCallbackLocked"
	fn := c.P.Func(fk)
	if fn == nil {
		r.Undec(rule, fk, "anchor", "-", "not found")
	} else {
		fps := staticCallsOf(fn, false, "filterpath")
		if len(fps) == 0 {
			r.Bad(rule, fk, "filterpath on every candidate", c.P.Pos(fn.Pos()), "the replay no longer runs candidates through the export pipeline")
		}
		for _, fp := range fps {
			// the nil test on the result
			var iff *ssa.If
			nonNilSucc := 0
			for _, ref := range *fp.Referrers() {
				bo, ok := ref.(*ssa.BinOp)
				if !ok {
					continue
				}
				for _, r2 := range *bo.Referrers() {
					if i, ok := r2.(*ssa.If); ok {
						iff = i
						if bo.Op.String() == "==" {
							nonNilSucc = 1
						}
					}
				}
			}
			if iff == nil {
				r.Bad(rule, fk, "partition", c.P.InstrPos(fp), "result of filterpath is not tested")
				continue
			}
			accepted, filtered := false, false
			for _, b := range fn.Blocks {
				for _, in := range b.Instrs {
					switch x := in.(type) {
					case *ssa.Store:
						if x.Val == ssa.Value(fp) && edgeDominates(iff.Block(), nonNilSucc, b) {
							accepted = true
						}
					case *ssa.Call:
						if x.Call.StaticCallee() != nil && x.Call.StaticCallee().Name() == "filteredPathForPeer" && edgeDominates(iff.Block(), 1-nonNilSucc, b) {
							filtered = true
						}
					}
				}
			}
			switch {
			case !accepted:
				r.Bad(rule, fk, "partition", c.P.InstrPos(fp), "an accepted candidate is not collected for the callback: routes would be lost by the reset")
			case !filtered:
				r.Bad(rule, fk, "partition", c.P.InstrPos(fp), "a rejected candidate is not collected in the filtered list: routes that the new policy rejects would never be withdrawn")
			default:
				r.Ok(rule, fk, "partition", c.P.InstrPos(fp), "accepted on the non-nil edge, filtered on the nil edge")
			}
		}
	}
	// withdrawals in softResetOut
	so := c.P.Func("(*pkg/server.BgpServer).softResetOut")
	if so == nil {
		r.Undec(rule, "softResetOut", "anchor", "-", "not found")
		return
	}
	sk := ir.FuncKey(so)
	var clones []*ssa.Call
	for _, f := range c.withPrivateHelpers(so, 1) {
		clones = append(clones, staticCallsOf(f, false, "Clone")...)
	}
	n := 0
	for _, cl := range clones {
		k, ok := cl.Call.Args[len(cl.Call.Args)-1].(*ssa.Const)
		if !ok || !k.IsNil() && k.Value.String() != "true" {
			continue
		}
		n++
		guarded := false
		for _, h := range staticCallsOf(cl.Parent(), false, "hasPathAlreadyBeenSent") {
			if !sameSym(h.Call.Args[len(h.Call.Args)-1], cl.Call.Args[0]) {
				continue
			}
			for _, ref := range *h.Referrers() {
				if i, ok := ref.(*ssa.If); ok && edgeDominates(i.Block(), 0, cl.Block()) {
					guarded = true
				}
			}
		}
		if guarded {
			r.Ok(rule, sk, "withdraw only what was sent", c.P.InstrPos(cl), "Clone(true) under hasPathAlreadyBeenSent")
		} else {
			r.Bad(rule, sk, "withdraw only what was sent", c.P.InstrPos(cl), "a withdrawal is built for a filtered path without the hasPathAlreadyBeenSent test on that path: withdraws for never-advertised routes, or none for advertised ones")
		}
	}
	if n == 0 {
		r.Bad(rule, sk, "withdraw only what was sent", c.P.Pos(so.Pos()), "soft reset out builds no withdrawals for newly rejected routes")
	}
}

// ruleSoftResetEntry: API direction -> operation mapping and the soft-reset-in replay source.
func (c *Ctx) ruleSoftResetEntry() {
	r := c.R
	rule := "E4.softreset-entry"
	r.Rule(rule, "ResetPeer maps direction IN/OUT/BOTH to soft reset in / out / both (BOTH runs both); soft reset in replays the peer's own Adj-RIB-In (PathList of peer.adjRibIn) through propagateUpdate for the same peer", 5)
	fk := "(*pkg/server.BgpServer).ResetPeer"
	fn := c.P.Func(fk)
	if fn == nil {
		r.Undec(rule, fk, "anchor", "-", "not found")
	} else {
		info := c.infoFor(fn)
		body := funcBody(fn)
		want := map[string][]string{
			"ResetPeerRequest_DIRECTION_IN":   {"sResetIn"},
			"ResetPeerRequest_DIRECTION_OUT":  {"sResetOut"},
			"ResetPeerRequest_DIRECTION_BOTH": {"sReset"},
		}
		sws := switchesOn(body, info, func(t types.Type) bool {
			n, ok := t.(*types.Named)
			return ok && n.Obj().Name() == "ResetPeerRequest_Direction"
		})
		if len(sws) == 0 {
			r.Bad(rule, fk, "direction switch", c.P.Pos(fn.Pos()), "no switch on the request direction")
		}
		for _, sw := range sws {
			for name, ops := range want {
				cc := sw.Cases[name]
				if cc == nil {
					r.Bad(rule, fk, "direction "+name, c.P.Pos(sw.Stmt.Pos()), "direction has no case")
					continue
				}
				got := calledFuncs(cc, info)
				var resets []string
				for g := range got {
					if strings.HasPrefix(g, "sReset") || strings.HasPrefix(g, "softReset") {
						resets = append(resets, g)
					}
				}
				sort.Strings(resets)
				if strings.Join(resets, ",") == strings.Join(ops, ",") {
					r.Ok(rule, fk, "direction "+name, c.P.Pos(cc.Pos()), strings.Join(resets, ","))
				} else {
					r.Bad(rule, fk, "direction "+name, c.P.Pos(cc.Pos()), fmt.Sprintf("runs %v, expected %v", resets, ops))
				}
			}
		}
	}
	// wrappers
	for w, ops := range map[string][]string{
		"(*pkg/server.BgpServer).sResetIn":  {"softResetIn"},
		"(*pkg/server.BgpServer).sResetOut": {"softResetOut"},
		"(*pkg/server.BgpServer).sReset":    {"softResetIn", "softResetOut"},
	} {
		wf := c.P.Func(w)
		if wf == nil {
			r.Undec(rule, w, "anchor", "-", "not found")
			continue
		}
		var got []string
		seen := map[string]bool{}
		for _, call := range staticCallsOf(wf, false, "softResetIn", "softResetOut") {
			if !seen[call.Call.StaticCallee().Name()] {
				seen[call.Call.StaticCallee().Name()] = true
				got = append(got, call.Call.StaticCallee().Name())
			}
		}
		sort.Strings(got)
		if strings.Join(got, ",") == strings.Join(ops, ",") {
			r.Ok(rule, w, "operations", c.P.Pos(wf.Pos()), strings.Join(got, ","))
		} else {
			r.Bad(rule, w, "operations", c.P.Pos(wf.Pos()), fmt.Sprintf("runs %v, expected %v", got, ops))
		}
	}
	// soft reset in source
	si := c.P.Func("(*pkg/server.BgpServer).softResetIn")
	if si == nil {
		r.Undec(rule, "softResetIn", "anchor", "-", "not found")
		return
	}
	sk := ir.FuncKey(si)
	props := staticCallsOf(si, false, "propagateUpdate")
	if len(props) == 0 {
		r.Bad(rule, sk, "replay source", c.P.Pos(si.Pos()), "soft reset in no longer re-enters propagateUpdate (import policy is not re-evaluated)")
	}
	for _, p := range props {
		args := p.Call.Args
		src, ok := args[len(args)-1].(*ssa.Call)
		good := false
		if ok && src.Call.StaticCallee() != nil && src.Call.StaticCallee().Name() == "PathList" {
			recv := src.Call.Args[0]
			if strings.HasSuffix(fieldPath(recv), "adjRibIn") {
				if u, ok := recv.(*ssa.UnOp); ok {
					if fa, ok := u.X.(*ssa.FieldAddr); ok && fa.X == args[len(args)-2] {
						good = true
					}
				}
			}
		}
		if good {
			r.Ok(rule, sk, "replay source", c.P.InstrPos(p), "peer.adjRibIn.PathList of the same peer")
		} else {
			r.Bad(rule, sk, "replay source", c.P.InstrPos(p), "the replayed list is not the PathList of the same peer's Adj-RIB-In")
		}
	}
}

// ruleAdjCloneKeepsRejection: Path.Clone does not carry the rejected mark; every non-withdraw clone an
// AdjRib method keeps must copy it, or loop-rejected routes become acceptable to the next soft reset in.
func (c *Ctx) ruleAdjCloneKeepsRejection() {
	r := c.R
	rule := "E3.adj-clone-rejected"
	r.Rule(rule, "in AdjRib methods every non-withdraw Clone of a stored path that is kept (stored back or returned) is followed, before it is stored anywhere, by SetRejected(src.IsRejected()) on the same source: Path.Clone does not copy the rejected mark, and soft reset in replays PathList(accepted) which relies on it", 2)
	adj := c.P.NamedType("internal/pkg/table", "AdjRib")
	if adj == nil {
		r.Undec(rule, "-", "anchor:AdjRib", "-", "not found")
		return
	}
	// sanity: Clone really does not copy the mark (otherwise the rule is moot)
	for _, fn := range c.P.FuncsIn("internal/pkg/table") {
		outer := ir.Outer(fn)
		if outer.Signature.Recv() == nil || ir.NamedOf(outer.Signature.Recv().Type()) != adj {
			continue
		}
		for _, cl := range staticCallsOf(fn, false, "Clone") {
			k, ok := cl.Call.Args[len(cl.Call.Args)-1].(*ssa.Const)
			if !ok || k.Value == nil || k.Value.String() != "false" {
				continue
			}
			src := cl.Call.Args[0]
			var set ssa.Instruction
			for _, ref := range *cl.Referrers() {
				sc, ok := ref.(*ssa.Call)
				if !ok || sc.Call.StaticCallee() == nil || sc.Call.StaticCallee().Name() != "SetRejected" || sc.Call.Args[0] != ssa.Value(cl) {
					continue
				}
				if ic, ok := sc.Call.Args[1].(*ssa.Call); ok && ic.Call.StaticCallee() != nil && ic.Call.StaticCallee().Name() == "IsRejected" && ic.Call.Args[0] == src {
					set = sc
				}
			}
			fk := ir.OuterKey(fn)
			cons := "Clone(false) kept"
			stored := 0
			bad := false
			for _, ref := range *cl.Referrers() {
				if st, ok := ref.(*ssa.Store); ok && st.Val == ssa.Value(cl) {
					stored++
					if set == nil || !dominatesInstr(set, st) {
						bad = true
					}
				}
			}
			switch {
			case stored == 0:
				r.Add(oblT(rule, fk, cons, c.P.InstrPos(cl), "ok", "clone is not kept", nil, true))
			case bad:
				r.Bad(rule, fk, cons, c.P.InstrPos(cl), "the clone replaces/joins stored paths without copying the rejected mark from its source: a route excluded on arrival (AS loop, own ORIGINATOR_ID) becomes acceptable and the next soft reset in installs it")
			default:
				r.Ok(rule, fk, cons, c.P.InstrPos(cl), "SetRejected(src.IsRejected()) precedes every store")
			}
		}
	}
}

func init() {
	register(&Check{
		ID: "C15",
		Expl: "Decides (E2b.owned-path) that nothing on the import, export or replay paths writes into a route object that a RIB still holds (policy actions and attribute rewriting work on clones), so the Adj-RIB-In a soft reset replays is what was received. Also: Decides the structural preconditions of 'reset = fresh evaluation': (E1.refresh-exclusion) every full replay records and queues under the peer's exclusive route-refresh lock and the incremental fan-out under the shared one; (E6.single-pipeline) export and import policy are evaluated only in the one pipeline the live path uses; " +
			"(E6.replay-partition) the replay classifies every candidate as accepted or filtered, and soft reset out withdraws exactly the filtered ones that had been sent; (E4.softreset-entry) API directions map to the right operations and soft reset in replays the peer's own Adj-RIB-In through import policy; (E3.adj-clone-rejected) Adj-RIB-In clones keep the rejected mark; plus the bookkeeping lock rows and send/record pairing of C01. Also: (E6.softreset-in-covers-all) soft reset in replays every addressed peer unconditionally; (E6.withdrawals-first) soft reset out hands over withdrawals before advertisements.",
		Not: "The metamorphic equivalence itself (Loc-RIB and per-peer view equal to a from-scratch run for all policy pairs and concurrent histories), idempotence of a repeated reset, and absence of duplicates are history-level and not decided.",
		Run: func(c *Ctx) {
			c.ruleRatchets("C15")
			c.ruleOwnedPathMutation("E2b.owned-path", 30)
			c.ruleRefreshExclusion()
			c.ruleSinglePipeline()
			c.ruleReplayPartition()
			c.ruleSoftResetEntry()
			c.ruleAdjCloneKeepsRejection()
			c.ruleSoftResetInCoversAll("E6.softreset-in-covers-all")
			c.ruleWithdrawalsFirst("E6.withdrawals-first")
			c.ruleRequires("E1.requires", requiresFor(lkRR), 1)
			c.ruleBookkeepingLocks("E1b.bookkeeping")
			c.rulePairing("E6.send-recorded")
		},
	})
}
