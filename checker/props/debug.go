package props

import (
	"encoding/json"
	"fmt"
	"gbverif/cmpchain"
	"go/token"
	"go/types"
	"golang.org/x/tools/go/ssa"
	"os"
	"sort"
	"strings"

	"gbverif/ir"
	"gbverif/locks"
	"gbverif/own"
	"gbverif/report"
)

// Debug dumps engine output for development.
var debugHooks = map[string]func(p *ir.Program){}

func Debug(p *ir.Program, what string) {
	if h := debugHooks[what]; h != nil {
		h(p)
		return
	}
	switch what {
	case "locks":
		a := locks.New(p)
		a.Roots = serverRoots(p)
		a.Run()
		fmt.Println("rounds", a.Rounds)
		var cl []string
		for c, n := range a.Classes {
			cl = append(cl, fmt.Sprintf("%s sites=%d", c, n))
		}
		sort.Strings(cl)
		for _, c := range cl {
			fmt.Println("class", c)
		}
		for _, u := range a.Unres {
			fmt.Println("UNRESOLVED", p.InstrPos(u), ir.FuncKey(u.Parent()))
		}
		type ek struct{ f, t string }
		seen := map[ek]bool{}
		for _, e := range a.Edges {
			k := ek{e.From + "(" + e.FromMode.String() + ")", e.To + "(" + e.ToMode.String() + ")"}
			if seen[k] {
				continue
			}
			seen[k] = true
			fmt.Printf("edge %s -> %s   at %s in %s\n", k.f, k.t, p.Pos(e.Pos), ir.FuncKey(e.Fn))
		}
		for fn, why := range a.Imbalanced {
			fmt.Println("imbalanced", ir.FuncKey(fn), why)
		}
		var ex []string
		for k, n := range a.ExtCalls {
			ex = append(ex, fmt.Sprintf("%s ×%d", k, n))
		}
		sort.Strings(ex)
		for _, e := range ex {
			fmt.Println("extcb", e)
		}
	}
}

func init() {
	debugHooks["census"] = func(p *ir.Program) {
		a := locks.New(p)
		a.Roots = serverRoots(p)
		a.Run()
		structs := map[string]bool{}
		for _, s := range []string{"BgpServer", "peer", "fsm", "fsmHandler", "peerGroup", "watcher", "roaClient", "roaManager", "zebraClient", "bmpClient", "bmpClientManager", "mrtWriter", "mrtManager", "bfdServer", "bfdPeer",
			"destination", "destinationShard", "Destinations", "TableManager", "Table", "RoutingPolicy", "rtmSet", "VPNPathIndex", "EVPNMacNLRIs", "AdjRib", "ROATable", "Path", "outgoingConnManager", "rtcHandler"} {
			structs[s] = true
		}
		acc := locks.FieldAccesses(p, func(n *types.Named, f *types.Var) bool {
			return n.Obj().Pkg() != nil && (n.Obj().Pkg().Path() == ir.ModPath+"/pkg/server" || n.Obj().Pkg().Path() == ir.ModPath+"/internal/pkg/table") && structs[n.Obj().Name()]
		})
		type row struct{ w, r map[string]int }
		rows := map[string]*row{}
		for _, ac := range acc {
			if ac.Fresh {
				continue
			}
			k := n2(ac.Struct) + "." + ac.Field.Name()
			if rows[k] == nil {
				rows[k] = &row{map[string]int{}, map[string]int{}}
			}
			_, must, reached := a.At(ac.Instr)
			s := must.String()
			if !reached {
				s = "UNREACHED"
			}
			s += " in " + ir.OuterKey(ac.Fn)
			if ac.Write {
				rows[k].w[s]++
			} else {
				rows[k].r[s]++
			}
		}
		var ks []string
		for k := range rows {
			ks = append(ks, k)
		}
		sort.Strings(ks)
		for _, k := range ks {
			fmt.Println("FIELD", k)
			for _, m := range []struct {
				n string
				m map[string]int
			}{{"W", rows[k].w}, {"R", rows[k].r}} {
				var ss []string
				for s, n := range m.m {
					ss = append(ss, fmt.Sprintf("   %s %s ×%d", m.n, s, n))
				}
				sort.Strings(ss)
				for _, s := range ss {
					fmt.Println(s)
				}
			}
		}
	}
}

func n2(n *types.Named) string { return n.Obj().Name() }

func init() {
	debugHooks["own"] = func(p *ir.Program) {
		r := report.New("DBG", "quick")
		r.VerifDir = "/tmp/dbgverif"
		c := &Ctx{P: p, R: r}
		c.rulePurity("E2d.pure", []string{"pkg/packet/bgp", "pkg/packet/bmp", "pkg/packet/mrt", "pkg/packet/rtr", "pkg/packet/bfd"}, 100)
		c.ruleInputImmutable("E2c.input", []string{"pkg/packet/bgp", "pkg/packet/bmp", "pkg/packet/mrt", "pkg/packet/rtr", "pkg/packet/bfd", "pkg/zebra"}, 100)
		r.Finish(nil)
	}
}

func init() {
	debugHooks["own1"] = func(p *ir.Program) {
		e := own.New(p)
		for _, q := range []struct {
			fn  string
			idx int
		}{{"(*pkg/server.BgpServer).prePolicyFilterpath", 2}, {"(*pkg/server.BgpServer).postFilterpath", 2}, {"internal/pkg/table.UpdatePathAttrs", 3}} {
			fn := p.Func(q.fn)
			for _, s := range e.WritesParam(fn, q.idx) {
				if isRouteContentField(s.Origin().Field) {
					fmt.Println(q.fn, q.idx, e.Describe(s), "\n      ", strings.Join(s.Path, "\n       "))
				}
			}
			fmt.Println(q.fn, q.idx, "alias", e.ReturnsAlias(fn, q.idx))
		}
	}
}

func init() {
	debugHooks["factories"] = func(p *ir.Program) {
		c := &Ctx{P: p, R: report.New("DBG", "quick")}
		for _, short := range []string{"pkg/packet/bgp", "pkg/packet/bmp", "pkg/packet/mrt", "pkg/packet/rtr", "pkg/zebra"} {
			pk := p.Pkg(short)
			for _, fn := range p.FuncsIn(short) {
				if fn.Parent() != nil || fn.Signature.Recv() != nil || fn.Blocks == nil {
					continue
				}
				res := fn.Signature.Results()
				if res.Len() == 0 {
					continue
				}
				n := ir.NamedOf(res.At(0).Type())
				if n == nil || n.Obj().Pkg() != pk.Types {
					continue
				}
				it, ok := n.Underlying().(*types.Interface)
				if !ok || it.NumMethods() == 0 {
					continue
				}
				ret := c.returnedTypes(fn, 0)
				if len(ret) < 2 {
					continue
				}
				impl := implementers(pk.Types, it)
				var missing []string
				for _, im := range impl {
					if !ret[im] {
						missing = append(missing, im.Obj().Name())
					}
				}
				fmt.Printf("%s -> %s: returns %d types; implementers %d; missing: %s\n", ir.FuncKey(fn), n.Obj().Name(), len(ret), len(impl), joinShort(missing, 12))
			}
		}
	}
}

func init() {
	debugHooks["decodealloc"] = func(p *ir.Program) {
		c := &Ctx{P: p, R: report.New("DBG", "quick")}
		for _, short := range []string{"pkg/packet/bgp", "pkg/packet/bmp", "pkg/packet/mrt", "pkg/packet/rtr"} {
			var roots []*ssa.Function
			for _, k := range decodeEntryPoints {
				if strings.Contains(k, short+".") {
					if fn := p.Func(k); fn != nil {
						roots = append(roots, fn)
					}
				}
			}
			reach := c.reachableFrom(roots)
			alloc := map[*types.Named]bool{}
			for fn := range reach {
				for _, b := range fn.Blocks {
					for _, in := range b.Instrs {
						if al, ok := in.(*ssa.Alloc); ok {
							if n := ir.NamedOf(al.Type()); n != nil {
								alloc[n] = true
							}
						}
					}
				}
			}
			pk := p.Pkg(short)
			sc := pk.Types.Scope()
			for _, name := range sc.Names() {
				tn, ok := sc.Lookup(name).(*types.TypeName)
				if !ok {
					continue
				}
				it, ok := tn.Type().Underlying().(*types.Interface)
				if !ok || it.NumMethods() < 2 {
					continue
				}
				var missing []string
				impl := implementers(pk.Types, it)
				for _, im := range impl {
					if !alloc[im] {
						missing = append(missing, im.Obj().Name())
					}
				}
				fmt.Printf("%s.%s: %d implementers, not allocated on decode side: %s\n", short, name, len(impl), joinShort(missing, 40))
			}
		}
	}
}

func init() {
	debugHooks["cmp"] = func(p *ir.Program) {
		for _, fn := range p.FuncsIn("internal/pkg/table") {
			if fn.Parent() != nil || !strings.HasPrefix(fn.Name(), "compareBy") {
				continue
			}
			ev := &cmpchain.Eval{}
			outs := ev.Run(fn, "X", "Y")
			fmt.Println("==", fn.Name(), len(outs), "rows", ev.Problems)
			for _, o := range outs {
				fmt.Println("   ", o)
			}
		}
	}
}

func init() {
	debugHooks["callers"] = func(p *ir.Program) {
		for _, k := range []string{"(*internal/pkg/table.Vrf).ToGlobalPath", "(*pkg/server.BgpServer).fixupApiPath"} {
			fn := p.Func(k)
			for _, e := range p.Callers(fn) {
				fmt.Println(k, "<-", ir.OuterKey(e.Caller.Func), ir.FuncKey(e.Caller.Func))
			}
		}
	}
}

func init() {
	debugHooks["apiswitch"] = func(p *ir.Program) {
		c := &Ctx{P: p, R: report.New("DBG", "quick")}
		bgpPk := p.Pkg("pkg/packet/bgp")
		uni := c.decodeInterfaceUniverse("pkg/packet/bgp")
		for _, fn := range p.FuncsIn("pkg/apiutil") {
			if fn.Parent() != nil {
				continue
			}
			sets, tags, _ := c.typeSwitchCasesT(fn, func(t types.Type) bool {
				n, ok := t.(*types.Named)
				if !ok || n.Obj().Pkg() != bgpPk.Types {
					return false
				}
				_, isI := n.Underlying().(*types.Interface)
				return isI
			})
			for i, set := range sets {
				in := tags[i].(*types.Named)
				var missing []string
				for im := range uni[in] {
					if !set[im] {
						missing = append(missing, im.Obj().Name())
					}
				}
				sort.Strings(missing)
				fmt.Printf("%s over %s: cases=%d default=%v universe=%d missing=%s\n", ir.FuncKey(fn), in.Obj().Name(), len(set), set[nil], len(uni[in]), joinShort(missing, 30))
			}
		}
	}
}

func init() {
	// held: VERIF_FN="key1,key2" — must-held set at every call site of the listed functions.
	debugHooks["held"] = func(p *ir.Program) {
		c := &Ctx{P: p, R: report.New("DBG", "quick")}
		a := c.lockAnalysis()
		for _, k := range strings.Split(os.Getenv("VERIF_FN"), ",") {
			fn := p.Func(k)
			if fn == nil {
				fmt.Println("not found", k)
				continue
			}
			for _, e := range a.In[fn] {
				_, must, reached := a.At(e.Site)
				fmt.Printf("%s <- %s %s must=%s reached=%v async=%v\n", fn.Name(), ir.FuncKey(e.Caller), p.InstrPos(e.Site), must, reached, e.Async)
			}
		}
	}
}

func init() {
	// ownq: VERIF_FN=key VERIF_IDX=n — writes/alias/escapes summary of one parameter
	debugHooks["ownq"] = func(p *ir.Program) {
		e := own.New(p)
		fn := p.Func(os.Getenv("VERIF_FN"))
		if fn == nil {
			fmt.Println("not found")
			return
		}
		idx := 0
		fmt.Sscanf(os.Getenv("VERIF_IDX"), "%d", &idx)
		for _, s := range e.WritesParam(fn, idx) {
			fmt.Println("WRITE", e.Describe(s), "\n      ", strings.Join(s.Path, "\n       "))
		}
		fmt.Println("alias", e.AliasKind(fn, idx))
		for _, es := range e.Escapes(fn, idx) {
			fmt.Println("ESCAPE", p.InstrPos(es.Instr), "into", es.Into, "rel", es.Rel)
		}
	}
}

func init() {
	// narrow: arithmetic in uint8/uint16 whose result is compared (possible wrap-around in a guard)
	debugHooks["narrow"] = func(p *ir.Program) {
		for _, short := range []string{"pkg/packet/bgp", "pkg/packet/mrt", "pkg/packet/bmp", "pkg/packet/rtr", "pkg/zebra"} {
			for _, fn := range p.FuncsIn(short) {
				for _, b := range fn.Blocks {
					for _, in := range b.Instrs {
						bo, ok := in.(*ssa.BinOp)
						if !ok {
							continue
						}
						bt, ok := bo.Type().Underlying().(*types.Basic)
						if !ok || bt.Kind() != types.Uint8 && bt.Kind() != types.Uint16 {
							continue
						}
						switch bo.Op.String() {
						case "+", "*", "<<", "-":
						default:
							continue
						}
						cmp := false
						for _, ref := range *bo.Referrers() {
							if c2, ok := ref.(*ssa.BinOp); ok {
								switch c2.Op.String() {
								case "<", "<=", ">", ">=", "==", "!=":
									cmp = true
								}
							}
						}
						if cmp {
							fmt.Println(p.InstrPos(bo), ir.FuncKey(fn), bo.String())
						}
					}
				}
			}
		}
	}
}

func init() {
	// bounds-baseline: prints the per-function counts of provably in-bounds constant-offset accesses (JSON)
	debugHooks["bounds-baseline"] = func(p *ir.Program) {
		c := &Ctx{P: p, R: report.New("DBG", "quick")}
		st := c.boundsStats(boundsPkgs)
		b, _ := json.MarshalIndent(st, "", " ")
		fmt.Println("BASELINE-BEGIN")
		fmt.Println(string(b))
	}
}

func init() {
	debugHooks["switch-baseline"] = func(p *ir.Program) {
		c := &Ctx{P: p, R: report.New("DBG", "quick")}
		b, _ := json.MarshalIndent(c.switchSigs(switchPkgs), "", " ")
		fmt.Println("BASELINE-BEGIN")
		fmt.Println(string(b))
	}
}

func init() {
	debugHooks["call-baseline"] = func(p *ir.Program) {
		c := &Ctx{P: p, R: report.New("DBG", "quick")}
		b, _ := json.MarshalIndent(c.callSigs(callPkgs), "", " ")
		fmt.Println("BASELINE-BEGIN")
		fmt.Println(string(b))
	}
}

func init() {
	debugHooks["errexit-baseline"] = func(p *ir.Program) {
		c := &Ctx{P: p, R: report.New("DBG", "quick")}
		b, _ := json.MarshalIndent(c.errorExits(boundsPkgs), "", " ")
		fmt.Println("BASELINE-BEGIN")
		fmt.Println(string(b))
	}
}

func init() {
	debugHooks["cond-baseline"] = func(p *ir.Program) {
		c := &Ctx{P: p, R: report.New("DBG", "quick")}
		b, _ := json.MarshalIndent(c.condSigs(callPkgs), "", " ")
		fmt.Println("BASELINE-BEGIN")
		fmt.Println(string(b))
	}
}

func init() {
	debugHooks["divscan"] = func(p *ir.Program) {
		for _, fn := range p.Funcs {
			if !p.InModule(fn) || fn.Blocks == nil {
				continue
			}
			file := p.Pos(ir.Outer(fn).Pos())
			if strings.Contains(file, ".pb.go") || strings.HasPrefix(file, "cmd/") || strings.HasPrefix(file, "tools/") {
				continue
			}
			for _, b := range fn.Blocks {
				for _, in := range b.Instrs {
					bo, ok := in.(*ssa.BinOp)
					if !ok || (bo.Op != token.QUO && bo.Op != token.REM) {
						continue
					}
					if _, isK := bo.Y.(*ssa.Const); isK {
						continue
					}
					if bt, ok := bo.Type().Underlying().(*types.Basic); ok && bt.Info()&types.IsInteger == 0 {
						continue
					}
					fmt.Printf("%s %s: %s\n", p.InstrPos(bo), ir.FuncKey(fn), describeVal(bo, 0))
				}
			}
		}
	}
}

func init() {
	debugHooks["optscan"] = func(p *ir.Program) {
		mo := p.NamedType("pkg/packet/bgp", "MarshallingOption")
		isOptVariadic := func(sig *types.Signature) bool {
			if !sig.Variadic() {
				return false
			}
			last := sig.Params().At(sig.Params().Len() - 1).Type()
			sl, ok := last.(*types.Slice)
			if !ok {
				return false
			}
			return ir.NamedOf(ir.Deref(sl.Elem())) == mo
		}
		for _, fn := range p.Funcs {
			if !p.InModule(fn) || fn.Blocks == nil {
				continue
			}
			var with, without []ssa.CallInstruction
			for _, b := range fn.Blocks {
				for _, in := range b.Instrs {
					ci, ok := in.(ssa.CallInstruction)
					if !ok {
						continue
					}
					sig := ci.Common().Signature()
					if sig == nil || !isOptVariadic(sig) {
						continue
					}
					args := ci.Common().Args
					last := args[len(args)-1]
					if k, ok := last.(*ssa.Const); ok && k.IsNil() {
						without = append(without, ci)
					} else {
						with = append(with, ci)
					}
				}
			}
			if len(with) > 0 && len(without) > 0 {
				for _, w := range without {
					fmt.Printf("MIXED %s: %s without options (%d calls with)\n", ir.FuncKey(fn), p.InstrPos(w), len(with))
				}
			}
		}
	}
}

func init() {
	debugHooks["readguard-baseline"] = func(p *ir.Program) {
		c := &Ctx{P: p, R: report.New("DBG", "quick")}
		sigs := c.rgSigs(callPkgs)
		b, _ := json.MarshalIndent(sigs, "", " ")
		fmt.Println("BASELINE-BEGIN")
		fmt.Println(string(b))
	}
}

func init() {
	debugHooks["write-baseline"] = func(p *ir.Program) {
		c := &Ctx{P: p, R: report.New("DBG", "quick")}
		files := map[string]bool{}
		for _, l := range anchorFiles {
			for _, f := range l {
				files[f] = true
			}
		}
		for _, l := range extraAnchorFiles {
			for _, f := range l {
				files[f] = true
			}
		}
		b, _ := json.MarshalIndent(c.writeSigs(callPkgs, func(f string) bool { return files[f] }), "", " ")
		fmt.Println("BASELINE-BEGIN")
		fmt.Println(string(b))
	}
}

func init() {
	debugHooks["cbscan"] = func(p *ir.Program) {
		c := &Ctx{P: p, R: report.New("DBG", "quick")}
		a := c.lockAnalysis()
		for _, fn := range p.FuncsIn("pkg/server") {
			for _, b := range fn.Blocks {
				for _, in := range b.Instrs {
					call, ok := in.(*ssa.Call)
					if !ok || call.Call.IsInvoke() || call.Call.StaticCallee() != nil {
						continue
					}
					v := call.Call.Value
					if u, ok := v.(*ssa.UnOp); ok {
						v = u.X
					}
					isParam := false
					switch x := v.(type) {
					case *ssa.Parameter:
						isParam = true
					case *ssa.FreeVar:
						_ = x
						isParam = true
					}
					if !isParam {
						continue
					}
					may, must, _ := a.At(call)
					fmt.Printf("%s %s may=%s must=%s\n", p.InstrPos(call), ir.FuncKey(fn), may, must)
				}
			}
		}
	}
}

func init() {
	debugHooks["events"] = func(p *ir.Program) {
		c := &Ctx{P: p, R: report.New("DBG", "quick")}
		fn := p.Func(os.Getenv("VERIF_FN"))
		if fn == nil {
			fmt.Println("not found")
			return
		}
		evs := events(c, fn)
		var ks []string
		for k := range evs {
			ks = append(ks, k)
		}
		sort.Strings(ks)
		for _, k := range ks {
			fmt.Println(len(evs[k]), k)
		}
		fmt.Println("EDGES")
		for _, e := range orderEdges(c, fn) {
			fmt.Println(e)
		}
	}
}

func init() {
	debugHooks["callarg-baseline"] = func(p *ir.Program) {
		c := &Ctx{P: p, R: report.New("DBG", "quick")}
		b, _ := json.MarshalIndent(c.callArgSigs(callPkgs), "", " ")
		fmt.Println("BASELINE-BEGIN")
		fmt.Println(string(b))
	}
}

func init() {
	// only-read-ratchet: the read ratchet alone over every anchor file (used to run the benign corpus quickly)
	debugHooks["only-read-ratchet"] = func(p *ir.Program) {
		c := &Ctx{P: p, R: report.New("DBG", "quick")}
		files := map[string]bool{}
		for _, m := range []map[string][]string{anchorFiles, extraAnchorFiles} {
			for _, l := range m {
				for _, f := range l {
					files[f] = true
				}
			}
		}
		c.ruleReadRatchet("E6.read-ratchet", callPkgs, func(f string) bool { return files[f] }, "baselines/readguard.json", 5)
		c.ruleLossyKey("E5.lossy-key", 3)
		c.rulePackedField("E5.packed-field", 1)
		c.ruleAfiAddrLen("E4.afi-addrlen", 1)
		c.ruleProvenanceRatchet("E6.provenance-ratchet", callPkgs, func(f string) bool { return files[f] }, "baselines/provenance.json", 5)
		c.ruleConditionRatchet("E6.condition-ratchet", callPkgs, func(f string) bool { return files[f] }, "baselines/conds.json", 5)
		c.ruleGuardRatchet("E6.guard-ratchet", callPkgs, func(f string) bool { return files[f] }, "baselines/readguard.json", 5)
		c.ruleLoopExitRatchet("E6.loop-exit-ratchet", callPkgs, func(f string) bool { return files[f] }, "baselines/loops.json", 5)
		c.ruleResetRatchet("E6.reset-ratchet", callPkgs, func(f string) bool { return files[f] }, "baselines/storeconsts.json", 5)
		for _, o := range c.R.All() {
			if o.Verdict == report.Violation || o.Verdict == report.Undecided {
				fmt.Printf("VIOLATION rule=%s %s %s %s: %s\n", o.Rule, o.Func, o.Construct, o.Pos, o.Detail)
			}
		}
		fmt.Printf("DONE %d obligations\n", len(c.R.All()))
	}
}

func init() {
	debugHooks["lossy-key"] = func(p *ir.Program) {
		c := &Ctx{P: p, R: report.New("DBG", "quick")}
		c.ruleLossyKey("E5.lossy-key", 3)
		c.rulePackedField("E5.packed-field", 1)
		c.ruleAfiAddrLen("E4.afi-addrlen", 1)
		for _, o := range c.R.All() {
			fmt.Printf("%v %s %s %s: %s\n", o.Verdict, o.Func, o.Construct, o.Pos, o.Detail)
		}
	}
}

func init() {
	debugHooks["storeconst-baseline"] = func(p *ir.Program) {
		c := &Ctx{P: p, R: report.New("DBG", "quick")}
		b, _ := json.MarshalIndent(c.scSigs(callPkgs), "", " ")
		fmt.Println("BASELINE-BEGIN")
		fmt.Println(string(b))
	}
}

func init() {
	debugHooks["provenance-baseline"] = func(p *ir.Program) {
		c := &Ctx{P: p, R: report.New("DBG", "quick")}
		b, _ := json.MarshalIndent(c.pvSigs(callPkgs), "", " ")
		fmt.Println("BASELINE-BEGIN")
		fmt.Println(string(b))
	}
}

func init() {
	debugHooks["loop-baseline"] = func(p *ir.Program) {
		c := &Ctx{P: p, R: report.New("DBG", "quick")}
		b, _ := json.MarshalIndent(c.lpSigs(callPkgs), "", " ")
		fmt.Println("BASELINE-BEGIN")
		fmt.Println(string(b))
	}
}
