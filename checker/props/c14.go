package props

import (
	"fmt"
	"go/types"
	"strings"

	"golang.org/x/tools/go/ssa"

	"gbverif/ir"
	"gbverif/own"
)

// sccOf: the blocks on a common cycle with b (b's strongly connected component; empty if b is not in a loop).
func sccOf(b *ssa.BasicBlock) map[*ssa.BasicBlock]bool {
	fwd := map[*ssa.BasicBlock]bool{}
	work := append([]*ssa.BasicBlock{}, b.Succs...)
	for len(work) > 0 {
		x := work[0]
		work = work[1:]
		if fwd[x] {
			continue
		}
		fwd[x] = true
		work = append(work, x.Succs...)
	}
	if !fwd[b] {
		return nil
	}
	bwd := map[*ssa.BasicBlock]bool{}
	work = append([]*ssa.BasicBlock{}, b.Preds...)
	for len(work) > 0 {
		x := work[0]
		work = work[1:]
		if bwd[x] {
			continue
		}
		bwd[x] = true
		work = append(work, x.Preds...)
	}
	out := map[*ssa.BasicBlock]bool{}
	for x := range fwd {
		if bwd[x] {
			out[x] = true
		}
	}
	return out
}

// sliceRoots: allocation sites (MakeSlice / array Alloc) a slice value may come from.
func sliceRoots(v ssa.Value, out map[ssa.Instruction]bool, seen map[ssa.Value]bool) {
	if seen[v] {
		return
	}
	seen[v] = true
	switch x := v.(type) {
	case *ssa.MakeSlice:
		out[x] = true
	case *ssa.Alloc:
		out[x] = true
	case *ssa.Slice:
		sliceRoots(x.X, out, seen)
	case *ssa.Phi:
		for _, e := range x.Edges {
			sliceRoots(e, out, seen)
		}
	case *ssa.Call:
		if bi, ok := x.Call.Value.(*ssa.Builtin); ok && bi.Name() == "append" {
			sliceRoots(x.Call.Args[0], out, seen)
		}
	case *ssa.UnOp:
		if al, ok := x.X.(*ssa.Alloc); ok {
			for _, ref := range *al.Referrers() {
				if st, ok := ref.(*ssa.Store); ok && st.Addr == ssa.Value(al) {
					sliceRoots(st.Val, out, seen)
				}
			}
		}
	}
}

// ruleRetainedBufferFresh: a slice handed, inside a loop, to a callee that keeps it must be
// allocated inside that loop iteration.
func (c *Ctx) ruleRetainedBufferFresh(rule string, pkgs []string, min int) {
	r := c.R
	r.Rule(rule, "no scratch-buffer reuse across retained values: when code inside a loop passes a slice to a function that keeps it (stores it in the object it returns or in a field), every allocation that slice can come from lies inside the loop — otherwise the objects built in successive iterations share one backing array", min)
	e := own.New(c.P)
	for _, fn := range c.P.FuncsIn(pkgs...) {
		for _, b := range fn.Blocks {
			var loop map[*ssa.BasicBlock]bool
			for _, in := range b.Instrs {
				call, ok := in.(*ssa.Call)
				if !ok {
					continue
				}
				callee := call.Call.StaticCallee()
				if callee == nil || callee.Blocks == nil || !c.P.InModule(callee) {
					continue
				}
				for i, a := range call.Call.Args {
					sl, ok := a.Type().Underlying().(*types.Slice)
					if !ok {
						continue
					}
					if _, basic := sl.Elem().Underlying().(*types.Basic); !basic {
						continue // element objects are shared by design; scratch buffers are scalar slices
					}
					if i >= len(callee.Params) {
						continue
					}
					retained := e.AliasKind(callee, i) != own.KindNone || len(e.Escapes(callee, i)) > 0
					if !retained {
						continue
					}
					if loop == nil {
						loop = sccOf(b)
						if loop == nil {
							loop = map[*ssa.BasicBlock]bool{}
						}
					}
					if len(loop) == 0 {
						continue
					}
					roots := map[ssa.Instruction]bool{}
					sliceRoots(a, roots, map[ssa.Value]bool{})
					fk := ir.OuterKey(fn)
					cons := fmt.Sprintf("%s(arg %d)", callee.Name(), i)
					if len(roots) == 0 {
						continue // parameter or field: not a local scratch buffer
					}
					bad := false
					for root := range roots {
						if !loop[root.Block()] {
							bad = true
						}
					}
					if bad {
						r.Bad(rule, fk, cons, c.P.InstrPos(call), "a buffer allocated outside the loop is handed to a function that keeps it: every object built by this loop shares one backing array, and later iterations overwrite earlier objects")
					} else {
						r.Ok(rule, fk, cons, c.P.InstrPos(call), "allocated per iteration")
					}
				}
			}
		}
	}
}

// ruleAS4Placement: producer on the 2-octet send path before serialisation; consumers on every received UPDATE before the callback.
func (c *Ctx) ruleAS4Placement() {
	r := c.R
	rule := "E6.as4-placement"
	r.Rule(rule, "AS4_PATH/AS4_AGGREGATOR producers run under the 2-octet-peer flag before the UPDATE is serialised; the reconstructing consumers run on every path from the UPDATE branch of the receive loop to the server callback", 4)
	// send side
	var send *ssa.Function
	if loop := c.P.Func("(*pkg/server.fsmHandler).sendMessageloop"); loop != nil {
		for _, an := range loop.AnonFuncs {
			for _, b := range an.Blocks {
				for _, in := range b.Instrs {
					if call, ok := in.(*ssa.Call); ok && call.Call.StaticCallee() != nil && call.Call.StaticCallee().Name() == "Serialize" && strings.Contains(call.Call.StaticCallee().String(), "BGPMessage") {
						send = an
					}
				}
			}
		}
	}
	if send == nil {
		r.Undec(rule, "-", "anchor:send closure", "-", "not found")
	} else {
		var ser ssa.Instruction
		prod := map[string]ssa.Instruction{}
		for _, b := range send.Blocks {
			for _, in := range b.Instrs {
				call, ok := in.(*ssa.Call)
				if !ok || call.Call.StaticCallee() == nil {
					continue
				}
				switch call.Call.StaticCallee().Name() {
				case "Serialize":
					if ser == nil {
						ser = call
					}
				case "UpdatePathAttrs2ByteAs", "UpdatePathAggregator2ByteAs":
					prod[call.Call.StaticCallee().Name()] = call
				}
			}
		}
		for _, name := range []string{"UpdatePathAttrs2ByteAs", "UpdatePathAggregator2ByteAs"} {
			p := prod[name]
			fk := ir.FuncKey(send)
			switch {
			case p == nil:
				r.Bad(rule, fk, name+" before Serialize", c.P.Pos(send.Pos()), "the down-conversion for 2-octet-AS peers is no longer applied on the send path")
			case ser == nil || !reachesInstr(p, ser):
				r.Bad(rule, fk, name+" before Serialize", c.P.InstrPos(p), "the down-conversion does not precede serialisation")
			default:
				// under the twoByteAsTrans flag
				under := false
				for _, g := range send.Blocks {
					if iff, ok := g.Instrs[len(g.Instrs)-1].(*ssa.If); ok && strings.HasSuffix(fieldPath(iff.Cond), "twoByteAsTrans") {
						under = true
					}
				}
				if under {
					r.Ok(rule, fk, name+" before Serialize", c.P.InstrPos(p), "under the 2-octet-peer flag")
				} else {
					r.Bad(rule, fk, name+" before Serialize", c.P.InstrPos(p), "the down-conversion is not conditioned on the negotiated 2-octet-AS flag")
				}
			}
		}
	}
	// receive side
	recv := c.P.Func("(*pkg/server.fsmHandler).recvMessageloop")
	if recv == nil {
		r.Undec(rule, "-", "anchor:recvMessageloop", "-", "not found")
		return
	}
	mt := enumMsgTypes(c)
	var entry *ssa.BasicBlock
	for _, b := range recv.Blocks {
		iff, ok := b.Instrs[len(b.Instrs)-1].(*ssa.If)
		if !ok {
			continue
		}
		bo, ok := iff.Cond.(*ssa.BinOp)
		if !ok || bo.Op.String() != "==" {
			continue
		}
		if k, ok := stripConv(bo.Y).(*ssa.Const); ok && fieldLoadName(bo.X) == "Type" {
			if kv, _ := constInt(k.Value); kv == mt["BGP_MSG_UPDATE"] && entry == nil {
				entry = b.Succs[0]
			}
		}
	}
	if entry == nil {
		r.Undec(rule, ir.FuncKey(recv), "anchor:UPDATE branch", c.P.Pos(recv.Pos()), "not found")
		return
	}
	for _, name := range []string{"UpdatePathAttrs4ByteAs", "UpdatePathAggregator4ByteAs"} {
		// every path from the UPDATE branch to the callback (an indirect call of h.callback) passes the consumer
		reachedCallbackWithout := false
		seen := map[*ssa.BasicBlock]bool{}
		work := []*ssa.BasicBlock{entry}
		for len(work) > 0 {
			b := work[0]
			work = work[1:]
			if seen[b] {
				continue
			}
			seen[b] = true
			hit := false
			for _, in := range b.Instrs {
				call, ok := in.(*ssa.Call)
				if !ok {
					continue
				}
				if call.Call.StaticCallee() != nil && call.Call.StaticCallee().Name() == name {
					hit = true
					break
				}
				if call.Call.StaticCallee() == nil && !call.Call.IsInvoke() && fieldLoadName(call.Call.Value) == "callback" {
					reachedCallbackWithout = true
				}
			}
			if hit || ir.IsExit(b) {
				continue
			}
			work = append(work, b.Succs...)
		}
		if reachedCallbackWithout {
			r.Bad(rule, ir.FuncKey(recv), name+" before callback", c.P.Pos(entry.Instrs[0].Pos()), "a received UPDATE can reach the server without AS4 reconstruction: 2-octet AS_PATH/AGGREGATOR values (AS_TRANS) would enter the RIB")
		} else {
			r.Ok(rule, ir.FuncKey(recv), name+" before callback", c.P.Pos(entry.Instrs[0].Pos()), "on every path")
		}
	}
}

// reachesInstr: y is reachable from x.
func reachesInstr(x, y ssa.Instruction) bool {
	if x.Block() == y.Block() {
		for _, in := range x.Block().Instrs {
			if in == x {
				return true
			}
			if in == y {
				break
			}
		}
	}
	return reaches(x.Block(), y.Block())
}

// sameMsgArg: two call arguments denote the same message body (x.(T) of the same symbolic value).
func sameMsgArg(a, b ssa.Value) bool {
	ta, ok1 := a.(*ssa.TypeAssert)
	tb, ok2 := b.(*ssa.TypeAssert)
	if ok1 && ok2 {
		return types.Identical(ta.AssertedType, tb.AssertedType) && sameSym(ta.X, tb.X)
	}
	return sameSym(a, b)
}

// ruleSendSideCopy: the send-side conversion edits a private copy of the attribute list.
func (c *Ctx) ruleSendSideCopy() {
	r := c.R
	rule := "E2.send-side-copy"
	r.Rule(rule, "the send-side AS conversions never store into the attribute list shared with other peers' messages: a conversion either replaces msg.PathAttributes by a fresh slice before storing any element (a copier), or every call of it is dominated by a call of a copier on the same message", 2)
	names := []string{"internal/pkg/table.UpdatePathAttrs2ByteAs", "internal/pkg/table.UpdatePathAggregator2ByteAs"}
	copier := map[*ssa.Function]bool{}
	var inplace []*ssa.Function
	for _, name := range names {
		fn := c.P.Func(name)
		if fn == nil {
			r.Undec(rule, name, "anchor", "-", "not found")
			continue
		}
		var fresh ssa.Instruction
		for _, b := range fn.Blocks {
			for _, in := range b.Instrs {
				if st, ok := in.(*ssa.Store); ok && strings.HasSuffix(fieldPath(st.Addr), "PathAttributes") {
					// a fresh list: make(...), or append(make(..., 0, n), old...), or slices.Clone(old)
					isFresh := false
					switch v := st.Val.(type) {
					case *ssa.MakeSlice:
						isFresh = true
					case *ssa.Call:
						if bi, ok := v.Call.Value.(*ssa.Builtin); ok && bi.Name() == "append" && len(v.Call.Args) == 2 {
							switch a0 := v.Call.Args[0].(type) {
							case *ssa.MakeSlice:
								isFresh = true
							case *ssa.Const:
								isFresh = a0.IsNil()
							}
						} else if cal := v.Call.StaticCallee(); cal != nil && strings.HasPrefix(cal.String(), "slices.Clone") {
							isFresh = true
						}
					}
					if isFresh && fresh == nil && b == fn.Blocks[0] {
						fresh = st
					}
				}
			}
		}
		n, early := 0, 0
		for _, b := range fn.Blocks {
			for _, in := range b.Instrs {
				st, ok := in.(*ssa.Store)
				if !ok {
					continue
				}
				ia, ok := st.Addr.(*ssa.IndexAddr)
				if !ok || fieldLoadName(ia.X) != "PathAttributes" {
					continue
				}
				n++
				if fresh == nil || !dominatesInstr(fresh, st) {
					early++
				}
			}
		}
		switch {
		case fresh != nil && early == 0:
			copier[fn] = true
			r.Ok(rule, name, "copier", c.P.InstrPos(fresh), fmt.Sprintf("unconditional fresh list on entry; %d element stores, all after it", n))
		case n == 0:
			r.Add(oblT(rule, name, "element stores", c.P.Pos(fn.Pos()), "ok", "no element of the list is stored", nil, true))
		default:
			inplace = append(inplace, fn)
		}
	}
	for _, fn := range inplace {
		name := ir.FuncKey(fn)
		sites := 0
		for _, caller := range c.P.Funcs {
			for _, b := range caller.Blocks {
				for _, in := range b.Instrs {
					call, ok := in.(*ssa.Call)
					if !ok || call.Call.StaticCallee() != fn {
						continue
					}
					sites++
					covered := false
					for _, b2 := range caller.Blocks {
						for _, in2 := range b2.Instrs {
							c2, ok := in2.(*ssa.Call)
							if ok && copier[c2.Call.StaticCallee()] && dominatesInstr(c2, call) && c2 != call && sameMsgArg(c2.Call.Args[0], call.Call.Args[0]) {
								covered = true
							}
						}
					}
					if covered {
						r.Ok(rule, ir.OuterKey(caller), "in-place "+fn.Name()+" after copier", c.P.InstrPos(call), "dominated by a copier call on the same message")
					} else {
						r.Bad(rule, ir.OuterKey(caller), "in-place "+fn.Name()+" after copier", c.P.InstrPos(call), fn.Name()+" overwrites elements of msg.PathAttributes in place and no call that first replaces the list by a private copy dominates this call: the same attribute list is queued for other peers")
					}
				}
			}
		}
		if sites == 0 {
			r.Add(oblT(rule, name, "call sites", c.P.Pos(fn.Pos()), "ok", "in-place converter has no callers", nil, true))
		}
	}
}

func init() {
	register(&Check{
		ID: "C14",
		Expl: "Decides placement and ownership, not arithmetic: (E6.as4-placement) the AS4_PATH/AS4_AGGREGATOR producers run under the 2-octet-peer flag before serialisation, and the reconstructing consumers run on every path of a received UPDATE before the server sees it; (E2.send-side-copy) the send-side conversion edits a private copy of the attribute list; " +
			"(E2.retained-buffer) segment buffers handed to constructors that keep them are allocated per iteration (no shared backing array between segments); (E6.as-trans) AS_TRANS is substituted exactly above 65535 and the raw 2-octet AS of an OPEN is only read through the 4-octet-aware helper. Also: (E4.confed-pair) segment-type switches name both confederation types; (E2.as4path-width-independent) the AS4_PATH codec never forwards the session options to a reader of Use2ByteAS.",
		Not: "Segment keep-count/merge arithmetic, 255-member boundaries, and the round-trip equality of AS_PATH/AGGREGATOR are value-level and not decided.",
		Run: func(c *Ctx) {
			c.ruleRatchets("C14")
			c.ruleNarrowGuard("E5.narrow-guard", []string{"pkg/packet/bgp"}, 2)
			c.ruleAS4Placement()
			c.ruleSendSideCopy()
			c.ruleRetainedBufferFresh("E2.retained-buffer", []string{"internal/pkg/table", "pkg/packet/bgp", "pkg/server", "pkg/apiutil"}, 4)
			c.ruleASNReaders()
			c.ruleConfedPair("E4.confed-pair")
			c.ruleAs4PathWidthIndependent("E2.as4path-width-independent")
		},
	})
}
