// Package props holds the per-property rule instances.
package props

import (
	"fmt"
	"sort"

	"golang.org/x/tools/go/ssa"

	"gbverif/ir"
	"gbverif/locks"
	"gbverif/own"
	"gbverif/report"
)

// Ctx is what a property check gets.
type Ctx struct {
	P           *ir.Program
	R           *report.Report
	Tier        string
	la          *locks.Analysis
	goFns       []*ssa.Function
	oe          *own.Eng
	phiSeen     map[*ssa.Phi]int
	phiSeen2    map[*ssa.Phi]int
	phiSeen3    map[*ssa.Phi]int
	freshListFn map[*ssa.Function]int
	famMemo     map[string]map[*ssa.Function]bool
}

func obl(rule, fn, construct, pos, verdict, detail string, witness []string) report.Obl {
	return report.Obl{Rule: rule, Func: fn, Construct: construct, Pos: pos, Verdict: report.Verdict(verdict), Detail: detail, Witness: witness}
}

func oblT(rule, fn, construct, pos, verdict, detail string, witness []string, trivial bool) report.Obl {
	o := obl(rule, fn, construct, pos, verdict, detail, witness)
	o.Trivial = trivial
	return o
}

type Check struct {
	ID   string
	Run  func(c *Ctx)
	Expl string // what is decided
	Not  string // what is not decided
}

var registry = map[string]*Check{}

func register(c *Check) { registry[c.ID] = c }

func Get(id string) *Check { return registry[id] }

func IDs() []string {
	var ids []string
	for k := range registry {
		ids = append(ids, k)
	}
	sort.Strings(ids)
	return ids
}

func must(cond bool, format string, a ...any) {
	if !cond {
		panic(fmt.Sprintf(format, a...))
	}
}
