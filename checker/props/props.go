// Package props holds the per-property rule instances.
package props

import (
	"fmt"
	"sort"

	"gbverif/ir"
	"gbverif/report"
)

// Ctx is what a property check gets.
type Ctx struct {
	P    *ir.Program
	R    *report.Report
	Tier string
}

type Check struct {
	ID   string
	Run  func(c *Ctx)
	Expl string // what is decided
	Not  string // what is not decided
}

var registry = map[string]*Check{}

func register(c *Check) { registry[c.ID] = c }

func Get(id string) *Check { return registry[id] }

func IDs() []string {
	var ids []string
	for k := range registry {
		ids = append(ids, k)
	}
	sort.Strings(ids)
	return ids
}

func (c *Ctx) pos(p interface{ Pos() interface{} }) string { return "" }

func must(cond bool, format string, a ...any) {
	if !cond {
		panic(fmt.Sprintf(format, a...))
	}
}
