package props

import (
	"go/types"
	"sort"
	"strings"

	"golang.org/x/tools/go/ssa"

	"gbverif/ir"
)

// Units of the order / bypass / guard ratchets. A top-level function is a unit under its FuncKey. A function literal
// is a unit of its own (its body is not part of the enclosing function's control flow), keyed by the enclosing
// unit's key and by its *role* there — how the literal is used (passed to which callee, called in place, deferred,
// started as a goroutine, stored) and its signature — never by its position or by go/ssa's $N numbering, so
// moving, adding or renumbering literals changes no key. Two literals of one function with the same role are
// ambiguous and are not units (nothing is decided about them).

const unitSep = " ⊳ "

type unit struct {
	Key string
	Fn  *ssa.Function
}

// closureRole describes how parent uses the function literal f.
func closureRole(c *Ctx, f *ssa.Function) string {
	p := f.Parent()
	if p == nil {
		return ""
	}
	var vals []ssa.Value
	for _, b := range p.Blocks {
		for _, in := range b.Instrs {
			if mc, ok := in.(*ssa.MakeClosure); ok && mc.Fn == ssa.Value(f) {
				vals = append(vals, mc)
			}
		}
	}
	roles := map[string]bool{}
	use := func(user ssa.Instruction, val ssa.Value) {
		switch u := user.(type) {
		case ssa.CallInstruction:
			com := u.Common()
			verb := "called"
			switch user.(type) {
			case *ssa.Defer:
				verb = "deferred"
			case *ssa.Go:
				verb = "go"
			}
			if com.Value == val {
				roles[verb] = true
				return
			}
			name := "dynamic"
			if com.IsInvoke() {
				name = com.Method.Name()
			} else if cal := com.StaticCallee(); cal != nil {
				name = ir.Unwrap(cal).Name()
			}
			for _, a := range com.Args {
				if a == val {
					roles["passed to "+name] = true
				}
			}
			if verb != "called" {
				roles[verb] = true
			}
		case *ssa.Store:
			if fa, ok := u.Addr.(*ssa.FieldAddr); ok {
				roles["stored in "+fieldName(fa)] = true
			} else {
				roles["local"] = true
			}
		case *ssa.MakeClosure:
			roles["captured"] = true
		case *ssa.Return:
			roles["returned"] = true
		case *ssa.DebugRef:
		default:
			roles["value"] = true
		}
	}
	if len(vals) > 0 {
		for _, v := range vals {
			if v.Referrers() != nil {
				for _, ref := range *v.Referrers() {
					use(ref, v)
				}
			}
		}
	} else {
		// a literal without free variables is used as a plain function value
		for _, b := range p.Blocks {
			for _, in := range b.Instrs {
				for _, op := range in.Operands(nil) {
					if op != nil && *op == ssa.Value(f) {
						use(in, f)
					}
				}
			}
		}
	}
	// a literal kept in a local and used from several places: "local" and "captured" add nothing to the uses
	if len(roles) > 1 {
		delete(roles, "local")
		delete(roles, "captured")
	}
	return strings.Join(sortedKeys(roles), "+") + " " + sigTypes(f.Signature)
}

// sigTypes renders a signature by its parameter and result types only (parameter names are free to change).
func sigTypes(sg *types.Signature) string {
	tup := func(t *types.Tuple) string {
		var xs []string
		for i := 0; i < t.Len(); i++ {
			xs = append(xs, shortType(t.At(i).Type()))
		}
		return strings.Join(xs, ", ")
	}
	s := "func(" + tup(sg.Params()) + ")"
	if sg.Results().Len() > 0 {
		s += " (" + tup(sg.Results()) + ")"
	}
	return s
}

func fieldName(fa *ssa.FieldAddr) string {
	if st, ok := ir.Deref(fa.X.Type()).Underlying().(*types.Struct); ok && fa.Field < st.NumFields() {
		return st.Field(fa.Field).Name()
	}
	return "field"
}

// closureUnits: the uniquely keyed function literals below the unit (key, fn), recursively.
func (c *Ctx) closureUnits(key string, fn *ssa.Function) []unit {
	by := map[string][]*ssa.Function{}
	for _, an := range fn.AnonFuncs {
		if an.Blocks == nil {
			continue
		}
		by[closureRole(c, an)] = append(by[closureRole(c, an)], an)
	}
	var roles []string
	for r := range by {
		roles = append(roles, r)
	}
	sort.Strings(roles)
	var out []unit
	for _, r := range roles {
		if len(by[r]) != 1 {
			continue
		}
		u := unit{Key: key + unitSep + r, Fn: by[r][0]}
		out = append(out, u)
		out = append(out, c.closureUnits(u.Key, u.Fn)...)
	}
	return out
}

// unitFunc resolves a unit key on the current tree (nil when the unit no longer exists or is no longer unique).
func (c *Ctx) unitFunc(key string) *ssa.Function {
	parts := strings.Split(key, unitSep)
	fn := c.P.Func(parts[0])
	for _, role := range parts[1:] {
		if fn == nil {
			return nil
		}
		var hit *ssa.Function
		n := 0
		for _, an := range fn.AnonFuncs {
			if an.Blocks != nil && closureRole(c, an) == role {
				hit = an
				n++
			}
		}
		if n != 1 {
			return nil
		}
		fn = hit
	}
	return fn
}

// unitOuterKey: the key of the named function a unit belongs to.
func unitOuterKey(key string) string {
	if i := strings.Index(key, unitSep); i >= 0 {
		return key[:i]
	}
	return key
}

func isClosureUnit(key string) bool { return strings.Contains(key, unitSep) }
