package props

import (
	"fmt"
	"go/token"
	"go/types"
	"sort"
	"strings"

	"golang.org/x/tools/go/ssa"

	"gbverif/ir"
	"gbverif/own"
)

// compiledSet describes a defined-set type that keeps a compiled form next to its pattern list.
type compiledSet struct {
	T       *types.Named
	Rebuild []*ssa.Function     // methods that recompute the compiled fields
	Sources map[*types.Var]bool // fields the rebuild reads (the pattern lists)
	Derived map[*types.Var]bool // fields the rebuild writes (the compiled form)
}

// findCompiledSets: struct types of the table package having a parameterless method that stores
// some of the struct's fields computed from other fields of the same struct.
func (c *Ctx) findCompiledSets() []*compiledSet {
	var out []*compiledSet
	pk := c.P.Pkg("internal/pkg/table")
	if pk == nil {
		return nil
	}
	sc := pk.Types.Scope()
	for _, name := range sc.Names() {
		tn, ok := sc.Lookup(name).(*types.TypeName)
		if !ok {
			continue
		}
		named, ok := tn.Type().(*types.Named)
		if !ok {
			continue
		}
		st, ok := named.Underlying().(*types.Struct)
		if !ok {
			continue
		}
		hasMatchers := false
		for i := 0; i < st.NumFields(); i++ {
			if st.Field(i).Name() == "matchers" {
				hasMatchers = true
			}
		}
		if !hasMatchers {
			continue
		}
		cs := &compiledSet{T: named, Sources: map[*types.Var]bool{}, Derived: map[*types.Var]bool{}}
		ms := types.NewMethodSet(types.NewPointer(named))
		for i := 0; i < ms.Len(); i++ {
			sel := ms.At(i)
			if len(sel.Index()) != 1 {
				continue
			}
			fn := c.P.SSA.FuncValue(sel.Obj().(*types.Func))
			if fn == nil || fn.Blocks == nil || fn.Signature.Params().Len() != 0 || fn.Signature.Results().Len() != 0 {
				continue
			}
			writes, reads := map[*types.Var]bool{}, map[*types.Var]bool{}
			for _, b := range fn.Blocks {
				for _, in := range b.Instrs {
					switch x := in.(type) {
					case *ssa.Store:
						if fa, ok := x.Addr.(*ssa.FieldAddr); ok && rootedAt(fa, fn.Params[0]) {
							writes[ir.FieldOf(fa)] = true
						}
					case *ssa.UnOp:
						if fa, ok := x.X.(*ssa.FieldAddr); ok && rootedAt(fa, fn.Params[0]) {
							reads[ir.FieldOf(fa)] = true
						}
					}
				}
			}
			isRebuild := false
			for f := range writes {
				if f.Name() == "matchers" {
					isRebuild = true
				}
			}
			if !isRebuild {
				continue
			}
			cs.Rebuild = append(cs.Rebuild, fn)
			for f := range writes {
				cs.Derived[f] = true
			}
			for f := range reads {
				if !writes[f] {
					cs.Sources[f] = true
				}
			}
		}
		if len(cs.Rebuild) > 0 {
			out = append(out, cs)
		}
	}
	return out
}

// rootedAt: the field address is a (nested) field of the object base points to.
func rootedAt(fa *ssa.FieldAddr, base ssa.Value) bool {
	var v ssa.Value = fa
	for i := 0; i < 6; i++ {
		f, ok := v.(*ssa.FieldAddr)
		if !ok {
			return false
		}
		if f.X == base || isParamLoad(f.X, base) {
			return true
		}
		v = f.X
	}
	return false
}

func isParamLoad(v ssa.Value, base ssa.Value) bool {
	if p, ok := base.(*ssa.Parameter); ok {
		return isParamValue(v, p)
	}
	return false
}

// ruleCompiledSetCoherence (C13): every edit of a pattern list is followed by a rebuild.
func (c *Ctx) ruleCompiledSetCoherence() {
	r := c.R
	rule := "E6.compiled-coherence"
	r.Rule(rule, "cache coherence of compiled matchers: in every function that modifies a pattern list of a set that keeps a compiled form (directly, or through the embedded list's Append/Remove/Replace), every path from the modification to a successful return passes through the set's rebuild method", 6)
	sets := c.findCompiledSets()
	if len(sets) < 2 {
		r.Undec(rule, "-", "anchor:compiled sets", "-", fmt.Sprintf("found %d set types with a compiled form (expected CommunitySet and ExtCommunitySet)", len(sets)))
		return
	}
	e := c.ownEng()
	for _, cs := range sets {
		tname := cs.T.Obj().Name()
		var srcNames []string
		for f := range cs.Sources {
			srcNames = append(srcNames, f.Name())
		}
		sort.Strings(srcNames)
		isRebuild := func(f *ssa.Function) bool {
			for _, rb := range cs.Rebuild {
				if rb == f {
					return true
				}
			}
			return false
		}
		for _, fn := range c.P.FuncsIn("internal/pkg/table") {
			if fn.Blocks == nil || isRebuild(fn) {
				continue
			}
			// values of type *T in this function that are not freshly allocated
			type edit struct {
				in   ssa.Instruction
				recv ssa.Value
				what string
			}
			var edits []edit
			for _, b := range fn.Blocks {
				for _, in := range b.Instrs {
					switch x := in.(type) {
					case *ssa.Store:
						fa, ok := x.Addr.(*ssa.FieldAddr)
						if !ok || !cs.Sources[ir.FieldOf(fa)] {
							continue
						}
						base := setBase(fa, cs.T)
						if base == nil || derivesFromAllocValue(base) {
							continue
						}
						edits = append(edits, edit{in, base, "store " + ir.FieldOf(fa).Name()})
					case *ssa.Call:
						callee := x.Call.StaticCallee()
						if callee == nil || callee.Signature.Recv() == nil || len(x.Call.Args) == 0 || isRebuild(callee) {
							continue
						}
						fa, ok := x.Call.Args[0].(*ssa.FieldAddr)
						if !ok {
							continue
						}
						base := setBase(fa, cs.T)
						if base == nil || ir.NamedOf(fa.X.Type()) != cs.T || derivesFromAllocValue(base) {
							continue
						}
						// does the embedded method write a source field?
						wr := false
						for _, s := range e.WritesParam(callee, 0) {
							for f := range cs.Sources {
								if s.Origin().Field != "" && hasSuffixField(s.Origin().Field, f.Name()) {
									wr = true
								}
							}
						}
						if wr {
							edits = append(edits, edit{in, base, "call " + callee.Name()})
						}
					}
				}
			}
			for i, ed := range edits {
				fk := ir.FuncKey(fn)
				cons := fmt.Sprintf("%s: %s #%d", tname, ed.what, i+1)
				if rebuildFollows(ed.in, ed.recv, isRebuild) {
					r.Ok(rule, fk, cons, c.P.InstrPos(ed.in), "every successful path reaches the rebuild of "+fmt.Sprint(srcNames))
				} else {
					r.Bad(rule, fk, cons, c.P.InstrPos(ed.in), "a pattern list is modified and the function can return successfully without rebuilding the compiled matchers: evaluation keeps using the stale compiled form")
				}
			}
		}
	}
}

func hasSuffixField(full, name string) bool {
	return len(full) > len(name) && full[len(full)-len(name)-1] == '.' && full[len(full)-len(name):] == name
}

// setBase: the *T value the (nested) field address belongs to.
func setBase(fa *ssa.FieldAddr, t *types.Named) ssa.Value {
	var v ssa.Value = fa
	for i := 0; i < 6; i++ {
		f, ok := v.(*ssa.FieldAddr)
		if !ok {
			return nil
		}
		if ir.NamedOf(f.X.Type()) == t {
			return f.X
		}
		v = f.X
	}
	return nil
}

func derivesFromAllocValue(v ssa.Value) bool {
	switch x := v.(type) {
	case *ssa.Alloc:
		return true
	case *ssa.UnOp:
		if al, ok := x.X.(*ssa.Alloc); ok {
			for _, ref := range *al.Referrers() {
				if st, ok := ref.(*ssa.Store); ok && st.Addr == ssa.Value(al) {
					if _, isAlloc := st.Val.(*ssa.Alloc); !isAlloc {
						return false
					}
				}
			}
			return true
		}
	}
	return false
}

// rebuildFollows: from instruction `from`, every path to a return whose error result is nil
// passes a call of a rebuild method on the same receiver.
func rebuildFollows(from ssa.Instruction, recv ssa.Value, isRebuild func(*ssa.Function) bool) bool {
	callsRebuild := func(in ssa.Instruction) bool {
		call, ok := in.(*ssa.Call)
		if !ok {
			return false
		}
		callee := call.Call.StaticCallee()
		return callee != nil && isRebuild(callee) && len(call.Call.Args) > 0 && sameRecv(call.Call.Args[0], recv)
	}
	b := from.Block()
	after := false
	for _, in := range b.Instrs {
		if in == from {
			after = true
			continue
		}
		if after && callsRebuild(in) {
			return true
		}
	}
	okExit := func(bb *ssa.BasicBlock) bool {
		// error exits are exempt: a return whose last result is not the nil constant
		ret, ok := bb.Instrs[len(bb.Instrs)-1].(*ssa.Return)
		if !ok {
			return true // panic
		}
		if len(ret.Results) == 0 {
			return false
		}
		last := ret.Results[len(ret.Results)-1]
		if k, ok := last.(*ssa.Const); ok && k.IsNil() {
			return false
		}
		if _, isErr := last.Type().Underlying().(*types.Interface); isErr {
			// an error exit only if this return is reached over the "err != nil" edge of a test of that value
			return knownNonNil(last, bb)
		}
		return false
	}
	if ir.IsExit(b) {
		return okExit(b)
	}
	seen := map[*ssa.BasicBlock]bool{}
	work := append([]*ssa.BasicBlock{}, b.Succs...)
	for len(work) > 0 {
		bb := work[0]
		work = work[1:]
		if seen[bb] {
			continue
		}
		seen[bb] = true
		hit := false
		for _, in := range bb.Instrs {
			if callsRebuild(in) {
				hit = true
			}
		}
		if hit {
			continue
		}
		if ir.IsExit(bb) {
			if !okExit(bb) {
				return false
			}
			continue
		}
		work = append(work, bb.Succs...)
	}
	return true
}

func sameRecv(a, b ssa.Value) bool {
	if a == b {
		return true
	}
	ua, ok1 := a.(*ssa.UnOp)
	ub, ok2 := b.(*ssa.UnOp)
	return ok1 && ok2 && ua.X == ub.X
}

func init() {
	register(&Check{
		ID:   "C13",
		Expl: "Decides only the cache-coherence clause 'editing a set leaves the compiled form equivalent to the edited pattern list' in its structural form: for every defined-set type that keeps compiled matchers next to its pattern lists (found from the code: a parameterless method that recomputes 'matchers' from other fields), every function that modifies a pattern list — directly or through the embedded list's Append/Remove/Replace — reaches that rebuild method on every path to a successful return; and (E2.index-owned) the any-match indexes derived from the matcher list own their bitmaps (no aliasing of a matcher's bitmap, no write through the matcher list). (E5.lossy-key) Of the clause 'the fast paths decide what the regular expressions decide' one structural necessary condition is decided: no lookup in the bitmaps and per-AS tables is keyed by a value cut down to fewer bits unless the value provably fits or the function consumes the dropped bits separately — otherwise communities that differ only in the dropped bits are indistinguishable to the fast path but not to the regular expression; and (E5.packed-field) wherever a community word is packed as high<<k | low the low part provably fits below bit k.",
		Not:  "That the compiled matchers (exact, wildcard, bitmap, any-index fast paths) decide what the regular expressions decide is a statement about strings and is not decided.",
		Run: func(c *Ctx) {
			c.ruleRatchets("C13")
			c.ruleCompiledSetCoherence()
			c.ruleIndexOwned()
			c.ruleLossyKey("E5.lossy-key", 6)
			c.rulePackedField("E5.packed-field", 2)
		},
	})
}

// knownNonNil: block b is only reachable over an edge that establishes v != nil.
func knownNonNil(v ssa.Value, b *ssa.BasicBlock) bool {
	fn := b.Parent()
	for _, g := range fn.Blocks {
		iff, ok := g.Instrs[len(g.Instrs)-1].(*ssa.If)
		if !ok {
			continue
		}
		bo, ok := iff.Cond.(*ssa.BinOp)
		if !ok || (bo.X != v && bo.Y != v) || !(isNilConst(bo.X) || isNilConst(bo.Y)) {
			continue
		}
		edge := -1
		switch bo.Op.String() {
		case "!=":
			edge = 0
		case "==":
			edge = 1
		}
		if edge >= 0 && edgeDominates(g, edge, b) {
			return true
		}
	}
	return false
}

// pointerStores: stores (anywhere, including into locals and composite literals) of a pointer-typed
// value derived from the seeds, followed into static callees that receive it.
func (c *Ctx) pointerStores(fn *ssa.Function, seeds map[ssa.Value]bool, depth int, seen map[*ssa.Function]bool) []ssa.Instruction {
	var out []ssa.Instruction
	if depth > 4 || fn.Blocks == nil {
		return nil
	}
	t := map[ssa.Value]bool{}
	for v := range seeds {
		t[v] = true
	}
	isPtr := func(v ssa.Value) bool {
		switch v.Type().Underlying().(type) {
		case *types.Pointer, *types.Map, *types.Slice, *types.Interface:
			return true
		}
		return false
	}
	for changed, iter := true, 0; changed && iter < 20; iter++ {
		changed = false
		mark := func(v ssa.Value) {
			if !t[v] {
				t[v] = true
				changed = true
			}
		}
		for _, b := range fn.Blocks {
			for _, in := range b.Instrs {
				switch x := in.(type) {
				case *ssa.UnOp:
					// loading out of tainted memory (element / field of the matcher list)
					if x.Op == token.MUL && t[x.X] {
						mark(x)
					}
				case *ssa.Store:
					// copying matcher content (a struct value, or a pointer spilled into a plain local variable)
					if t[x.Val] {
						if al, ok := x.Addr.(*ssa.Alloc); ok {
							mark(al)
						}
					}
				case *ssa.IndexAddr:
					if t[x.X] {
						mark(x)
					}
				case *ssa.FieldAddr:
					if t[x.X] {
						mark(x)
					}
				case *ssa.Field:
					if t[x.X] {
						mark(x)
					}
				case *ssa.Index:
					if t[x.X] {
						mark(x)
					}
				case *ssa.Phi:
					for _, e := range x.Edges {
						if t[e] {
							mark(x)
						}
					}
				case *ssa.ChangeType:
					if t[x.X] {
						mark(x)
					}
				case *ssa.MakeInterface:
					if t[x.X] {
						mark(x)
					}
				case *ssa.Slice:
					if t[x.X] {
						mark(x)
					}
				case *ssa.Range:
					if t[x.X] {
						mark(x)
					}
				case *ssa.Next:
					if t[x.Iter] {
						mark(x)
					}
				case *ssa.Extract:
					if t[x.Tuple] {
						mark(x)
					}
				}
			}
		}
	}
	for _, b := range fn.Blocks {
		for _, in := range b.Instrs {
			switch x := in.(type) {
			case *ssa.Store:
				if _, spill := x.Addr.(*ssa.Alloc); t[x.Val] && isPtr(x.Val) && !spill {
					out = append(out, x)
				}
			case *ssa.MapUpdate:
				if t[x.Value] && isPtr(x.Value) {
					out = append(out, x)
				}
			case *ssa.Return:
				for _, rv := range x.Results {
					if t[rv] && isPtr(rv) {
						out = append(out, x)
					}
				}
			case ssa.CallInstruction:
				cc := x.Common()
				callee := cc.StaticCallee()
				if callee == nil || !c.P.InModule(callee) || seen[callee] {
					continue
				}
				sub := map[ssa.Value]bool{}
				for i, a := range cc.Args {
					if t[a] && isPtr(a) && i < len(callee.Params) {
						sub[callee.Params[i]] = true
					}
				}
				if len(sub) > 0 {
					seen[callee] = true
					out = append(out, c.pointerStores(callee, sub, depth+1, seen)...)
					delete(seen, callee)
				}
			}
		}
	}
	return out
}

// ruleIndexOwned: derived indexes own their memory.
func (c *Ctx) ruleIndexOwned() {
	r := c.R
	rule := "E2.index-owned"
	r.Rule(rule, "functions that derive an index from a list of compiled matchers (a parameter of type []…Matcher) neither write through that parameter nor return/store anything that aliases memory reachable from it: every bitmap in the index is the index's own allocation, so merging later patterns into the index cannot change what an individual matcher accepts", 2)
	e := own.New(c.P)
	n := 0
	for _, fn := range c.P.FuncsIn("internal/pkg/table") {
		if fn.Parent() != nil || fn.Blocks == nil {
			continue
		}
		for i, p := range fn.Params {
			sl, ok := p.Type().Underlying().(*types.Slice)
			if !ok {
				continue
			}
			nt := ir.NamedOf(sl.Elem())
			if nt == nil || !strings.HasSuffix(nt.Obj().Name(), "Matcher") {
				continue
			}
			if _, isStruct := nt.Underlying().(*types.Struct); !isStruct {
				continue
			}
			if fn.Signature.Results().Len() == 0 {
				continue
			}
			n++
			fk := ir.FuncKey(fn)
			cons := "derived from " + p.Name()
			ws := e.WritesParam(fn, i)
			ak := e.AliasKind(fn, i)
			es := e.Escapes(fn, i)
			ps := c.pointerStores(fn, map[ssa.Value]bool{p: true}, 0, map[*ssa.Function]bool{fn: true})
			switch {
			case len(ps) > 0:
				r.Bad(rule, fk, cons, c.P.InstrPos(ps[0]), "a pointer taken from a matcher is kept (stored or returned) while building the index: the index entry aliases the matcher's own bitmap, so merging later patterns into the index changes what that matcher accepts")
			case len(es) > 0:
				r.Bad(rule, fk, cons, c.P.InstrPos(es[0].Instr), "a pointer taken from a matcher is stored into the index being built: the index entry aliases the matcher's own bitmap, so merging later patterns into the index changes what that matcher accepts")
			case len(ws) > 0:
				r.Bad(rule, fk, cons, c.P.InstrPos(ws[0].Instr), "building the index writes into memory that belongs to a matcher ("+e.Describe(ws[0])+")")
			case ak != own.KindNone:
				r.Bad(rule, fk, cons, c.P.Pos(fn.Pos()), "the returned index aliases memory reachable from the matcher list: later merges into the index change what an individual matcher accepts")
			default:
				r.Ok(rule, fk, cons, c.P.Pos(fn.Pos()), "no write through the matcher list, result owns its memory")
			}
		}
	}
	_ = n
}
