package props

import (
	"fmt"
	"go/types"
	"sort"

	"golang.org/x/tools/go/ssa"

	"gbverif/ir"
)

// compiledSet describes a defined-set type that keeps a compiled form next to its pattern list.
type compiledSet struct {
	T       *types.Named
	Rebuild []*ssa.Function      // methods that recompute the compiled fields
	Sources map[*types.Var]bool  // fields the rebuild reads (the pattern lists)
	Derived map[*types.Var]bool  // fields the rebuild writes (the compiled form)
}

// findCompiledSets: struct types of the table package having a parameterless method that stores
// some of the struct's fields computed from other fields of the same struct.
func (c *Ctx) findCompiledSets() []*compiledSet {
	var out []*compiledSet
	pk := c.P.Pkg("internal/pkg/table")
	if pk == nil {
		return nil
	}
	sc := pk.Types.Scope()
	for _, name := range sc.Names() {
		tn, ok := sc.Lookup(name).(*types.TypeName)
		if !ok {
			continue
		}
		named, ok := tn.Type().(*types.Named)
		if !ok {
			continue
		}
		st, ok := named.Underlying().(*types.Struct)
		if !ok {
			continue
		}
		hasMatchers := false
		for i := 0; i < st.NumFields(); i++ {
			if st.Field(i).Name() == "matchers" {
				hasMatchers = true
			}
		}
		if !hasMatchers {
			continue
		}
		cs := &compiledSet{T: named, Sources: map[*types.Var]bool{}, Derived: map[*types.Var]bool{}}
		ms := types.NewMethodSet(types.NewPointer(named))
		for i := 0; i < ms.Len(); i++ {
			sel := ms.At(i)
			if len(sel.Index()) != 1 {
				continue
			}
			fn := c.P.SSA.FuncValue(sel.Obj().(*types.Func))
			if fn == nil || fn.Blocks == nil || fn.Signature.Params().Len() != 0 || fn.Signature.Results().Len() != 0 {
				continue
			}
			writes, reads := map[*types.Var]bool{}, map[*types.Var]bool{}
			for _, b := range fn.Blocks {
				for _, in := range b.Instrs {
					switch x := in.(type) {
					case *ssa.Store:
						if fa, ok := x.Addr.(*ssa.FieldAddr); ok && rootedAt(fa, fn.Params[0]) {
							writes[ir.FieldOf(fa)] = true
						}
					case *ssa.UnOp:
						if fa, ok := x.X.(*ssa.FieldAddr); ok && rootedAt(fa, fn.Params[0]) {
							reads[ir.FieldOf(fa)] = true
						}
					}
				}
			}
			isRebuild := false
			for f := range writes {
				if f.Name() == "matchers" {
					isRebuild = true
				}
			}
			if !isRebuild {
				continue
			}
			cs.Rebuild = append(cs.Rebuild, fn)
			for f := range writes {
				cs.Derived[f] = true
			}
			for f := range reads {
				if !writes[f] {
					cs.Sources[f] = true
				}
			}
		}
		if len(cs.Rebuild) > 0 {
			out = append(out, cs)
		}
	}
	return out
}

// rootedAt: the field address is a (nested) field of the object base points to.
func rootedAt(fa *ssa.FieldAddr, base ssa.Value) bool {
	var v ssa.Value = fa
	for i := 0; i < 6; i++ {
		f, ok := v.(*ssa.FieldAddr)
		if !ok {
			return false
		}
		if f.X == base || isParamLoad(f.X, base) {
			return true
		}
		v = f.X
	}
	return false
}

func isParamLoad(v ssa.Value, base ssa.Value) bool {
	if p, ok := base.(*ssa.Parameter); ok {
		return isParamValue(v, p)
	}
	return false
}

// ruleCompiledSetCoherence (C13): every edit of a pattern list is followed by a rebuild.
func (c *Ctx) ruleCompiledSetCoherence() {
	r := c.R
	rule := "E6.compiled-coherence"
	r.Rule(rule, "cache coherence of compiled matchers: in every function that modifies a pattern list of a set that keeps a compiled form (directly, or through the embedded list's Append/Remove/Replace), every path from the modification to a successful return passes through the set's rebuild method", 6)
	sets := c.findCompiledSets()
	if len(sets) < 2 {
		r.Undec(rule, "-", "anchor:compiled sets", "-", fmt.Sprintf("found %d set types with a compiled form (expected CommunitySet and ExtCommunitySet)", len(sets)))
		return
	}
	e := c.ownEng()
	for _, cs := range sets {
		tname := cs.T.Obj().Name()
		var srcNames []string
		for f := range cs.Sources {
			srcNames = append(srcNames, f.Name())
		}
		sort.Strings(srcNames)
		isRebuild := func(f *ssa.Function) bool {
			for _, rb := range cs.Rebuild {
				if rb == f {
					return true
				}
			}
			return false
		}
		for _, fn := range c.P.FuncsIn("internal/pkg/table") {
			if fn.Blocks == nil || isRebuild(fn) {
				continue
			}
			// values of type *T in this function that are not freshly allocated
			type edit struct {
				in   ssa.Instruction
				recv ssa.Value
				what string
			}
			var edits []edit
			for _, b := range fn.Blocks {
				for _, in := range b.Instrs {
					switch x := in.(type) {
					case *ssa.Store:
						fa, ok := x.Addr.(*ssa.FieldAddr)
						if !ok || !cs.Sources[ir.FieldOf(fa)] {
							continue
						}
						base := setBase(fa, cs.T)
						if base == nil || derivesFromAllocValue(base) {
							continue
						}
						edits = append(edits, edit{in, base, "store " + ir.FieldOf(fa).Name()})
					case *ssa.Call:
						callee := x.Call.StaticCallee()
						if callee == nil || callee.Signature.Recv() == nil || len(x.Call.Args) == 0 || isRebuild(callee) {
							continue
						}
						fa, ok := x.Call.Args[0].(*ssa.FieldAddr)
						if !ok {
							continue
						}
						base := setBase(fa, cs.T)
						if base == nil || ir.NamedOf(fa.X.Type()) != cs.T || derivesFromAllocValue(base) {
							continue
						}
						// does the embedded method write a source field?
						wr := false
						for _, s := range e.WritesParam(callee, 0) {
							for f := range cs.Sources {
								if s.Origin().Field != "" && hasSuffixField(s.Origin().Field, f.Name()) {
									wr = true
								}
							}
						}
						if wr {
							edits = append(edits, edit{in, base, "call " + callee.Name()})
						}
					}
				}
			}
			for i, ed := range edits {
				fk := ir.FuncKey(fn)
				cons := fmt.Sprintf("%s: %s #%d", tname, ed.what, i+1)
				if rebuildFollows(ed.in, ed.recv, isRebuild) {
					r.Ok(rule, fk, cons, c.P.InstrPos(ed.in), "every successful path reaches the rebuild of "+fmt.Sprint(srcNames))
				} else {
					r.Bad(rule, fk, cons, c.P.InstrPos(ed.in), "a pattern list is modified and the function can return successfully without rebuilding the compiled matchers: evaluation keeps using the stale compiled form")
				}
			}
		}
	}
}

func hasSuffixField(full, name string) bool {
	return len(full) > len(name) && full[len(full)-len(name)-1] == '.' && full[len(full)-len(name):] == name
}

// setBase: the *T value the (nested) field address belongs to.
func setBase(fa *ssa.FieldAddr, t *types.Named) ssa.Value {
	var v ssa.Value = fa
	for i := 0; i < 6; i++ {
		f, ok := v.(*ssa.FieldAddr)
		if !ok {
			return nil
		}
		if ir.NamedOf(f.X.Type()) == t {
			return f.X
		}
		v = f.X
	}
	return nil
}

func derivesFromAllocValue(v ssa.Value) bool {
	switch x := v.(type) {
	case *ssa.Alloc:
		return true
	case *ssa.UnOp:
		if al, ok := x.X.(*ssa.Alloc); ok {
			for _, ref := range *al.Referrers() {
				if st, ok := ref.(*ssa.Store); ok && st.Addr == ssa.Value(al) {
					if _, isAlloc := st.Val.(*ssa.Alloc); !isAlloc {
						return false
					}
				}
			}
			return true
		}
	}
	return false
}

// rebuildFollows: from instruction `from`, every path to a return whose error result is nil
// passes a call of a rebuild method on the same receiver.
func rebuildFollows(from ssa.Instruction, recv ssa.Value, isRebuild func(*ssa.Function) bool) bool {
	callsRebuild := func(in ssa.Instruction) bool {
		call, ok := in.(*ssa.Call)
		if !ok {
			return false
		}
		callee := call.Call.StaticCallee()
		return callee != nil && isRebuild(callee) && len(call.Call.Args) > 0 && sameRecv(call.Call.Args[0], recv)
	}
	b := from.Block()
	after := false
	for _, in := range b.Instrs {
		if in == from {
			after = true
			continue
		}
		if after && callsRebuild(in) {
			return true
		}
	}
	okExit := func(bb *ssa.BasicBlock) bool {
		// error exits are exempt: a return whose last result is not the nil constant
		ret, ok := bb.Instrs[len(bb.Instrs)-1].(*ssa.Return)
		if !ok {
			return true // panic
		}
		if len(ret.Results) == 0 {
			return false
		}
		last := ret.Results[len(ret.Results)-1]
		if k, ok := last.(*ssa.Const); ok && k.IsNil() {
			return false
		}
		if _, isErr := last.Type().Underlying().(*types.Interface); isErr {
			// an error exit only if this return is reached over the "err != nil" edge of a test of that value
			return knownNonNil(last, bb)
		}
		return false
	}
	if ir.IsExit(b) {
		return okExit(b)
	}
	seen := map[*ssa.BasicBlock]bool{}
	work := append([]*ssa.BasicBlock{}, b.Succs...)
	for len(work) > 0 {
		bb := work[0]
		work = work[1:]
		if seen[bb] {
			continue
		}
		seen[bb] = true
		hit := false
		for _, in := range bb.Instrs {
			if callsRebuild(in) {
				hit = true
			}
		}
		if hit {
			continue
		}
		if ir.IsExit(bb) {
			if !okExit(bb) {
				return false
			}
			continue
		}
		work = append(work, bb.Succs...)
	}
	return true
}

func sameRecv(a, b ssa.Value) bool {
	if a == b {
		return true
	}
	ua, ok1 := a.(*ssa.UnOp)
	ub, ok2 := b.(*ssa.UnOp)
	return ok1 && ok2 && ua.X == ub.X
}

func init() {
	register(&Check{
		ID: "C13",
		Expl: "Decides only the cache-coherence clause 'editing a set leaves the compiled form equivalent to the edited pattern list' in its structural form: for every defined-set type that keeps compiled matchers next to its pattern lists (found from the code: a parameterless method that recomputes 'matchers' from other fields), every function that modifies a pattern list — directly or through the embedded list's Append/Remove/Replace — reaches that rebuild method on every path to a successful return.",
		Not: "That the compiled matchers (exact, wildcard, bitmap, any-index fast paths) decide what the regular expressions decide is a statement about strings and is not decided.",
		Run: func(c *Ctx) {
			c.ruleCompiledSetCoherence()
		},
	})
}


// knownNonNil: block b is only reachable over an edge that establishes v != nil.
func knownNonNil(v ssa.Value, b *ssa.BasicBlock) bool {
	fn := b.Parent()
	for _, g := range fn.Blocks {
		iff, ok := g.Instrs[len(g.Instrs)-1].(*ssa.If)
		if !ok {
			continue
		}
		bo, ok := iff.Cond.(*ssa.BinOp)
		if !ok || (bo.X != v && bo.Y != v) || !(isNilConst(bo.X) || isNilConst(bo.Y)) {
			continue
		}
		edge := -1
		switch bo.Op.String() {
		case "!=":
			edge = 0
		case "==":
			edge = 1
		}
		if edge >= 0 && edgeDominates(g, edge, b) {
			return true
		}
	}
	return false
}
