package props

import (
	"fmt"
	"go/token"
	"go/types"

	"golang.org/x/tools/go/ssa"

	"gbverif/ir"
)

// ruleReaderConnClosed: a state function that has started a reader goroutine on the session's connection and then
// puts another connection into that field closes the connection the reader is blocked on before it returns.
//
// The FSM state functions start `go recvMessage(ctx, fsm.conn, …)` and, when they leave, poke fsm.conn's read
// deadline and wait for that goroutine (deferred SetReadDeadline + wg.Wait). If fsm.conn was replaced in between
// (collision resolution), the poke goes to the new connection and the wait is for a reader of the old one: unless
// the old connection was closed on the way, the FSM goroutine is parked until the remote sends or closes — hold
// timer, admin-down and context cancellation are no longer served, and DeletePeer leaves the goroutine and both
// connections behind.
func (c *Ctx) ruleReaderConnClosed(rule string, min int) {
	r := c.R
	r.Rule(rule, "typestate of the session connection: in a function of pkg/server that starts a reader goroutine (go …recvMessage…) on the value of a net.Conn struct field and also stores to that field, on every path from the entry to a return on which the field ends up holding another connection than the one the reader was started on, that old connection has been closed (x.Close(), or handed to a module function that closes its parameter, e.g. sendNotification / sendCollisionCease) — otherwise the deferred wait for the reader never ends. Evaluated path-sensitively over the control-flow graph with the state (replaced, old closed)", min)
	isConnField := func(fa *ssa.FieldAddr) *types.Var {
		st, ok := ir.Deref(fa.X.Type()).Underlying().(*types.Struct)
		if !ok || fa.Field >= st.NumFields() {
			return nil
		}
		f := st.Field(fa.Field)
		if n := ir.NamedOf(f.Type()); n != nil && n.Obj().Name() == "Conn" && n.Obj().Pkg() != nil && n.Obj().Pkg().Path() == "net" {
			return f
		}
		return nil
	}
	loadOf := func(v ssa.Value) *types.Var {
		u, ok := v.(*ssa.UnOp)
		if !ok || u.Op != token.MUL {
			return nil
		}
		fa, ok := u.X.(*ssa.FieldAddr)
		if !ok {
			return nil
		}
		return isConnField(fa)
	}
	closes := map[*ssa.Function]map[int]bool{}
	var closesParam func(fn *ssa.Function, idx, depth int) bool
	closesParam = func(fn *ssa.Function, idx, depth int) bool {
		if fn == nil || fn.Blocks == nil || idx >= len(fn.Params) || depth > 3 {
			return false
		}
		if m, ok := closes[fn]; ok {
			if v, ok := m[idx]; ok {
				return v
			}
		} else {
			closes[fn] = map[int]bool{}
		}
		closes[fn][idx] = false
		p := ssa.Value(fn.Params[idx])
		res := false
		for _, b := range fn.Blocks {
			for _, in := range b.Instrs {
				ci, ok := in.(ssa.CallInstruction)
				if !ok {
					continue
				}
				com := ci.Common()
				if com.IsInvoke() && com.Method.Name() == "Close" && com.Value == p {
					res = true
				}
				if cal := calleeOf(com); cal != nil && c.P.InModule(cal) {
					for i, a := range com.Args {
						if a == p && closesParam(cal, i, depth+1) {
							res = true
						}
					}
				}
			}
		}
		closes[fn][idx] = res
		return res
	}
	n := 0
	for _, fn := range c.P.FuncsIn("pkg/server") {
		if fn.Parent() != nil || fn.Blocks == nil {
			continue
		}
		// the field the reader is started on
		var field *types.Var
		for _, b := range fn.Blocks {
			for _, in := range b.Instrs {
				g, ok := in.(*ssa.Go)
				if !ok {
					continue
				}
				cal := calleeOf(&g.Call)
				if cal == nil || cal.Name() != "recvMessage" {
					continue
				}
				for _, a := range g.Call.Args {
					if f := loadOf(a); f != nil {
						field = f
					}
				}
			}
		}
		if field == nil {
			continue
		}
		stores := 0
		for _, b := range fn.Blocks {
			for _, in := range b.Instrs {
				if st, ok := in.(*ssa.Store); ok {
					if fa, ok := st.Addr.(*ssa.FieldAddr); ok && isConnField(fa) == field {
						stores++
					}
				}
			}
		}
		fk := ir.FuncKey(fn)
		cons := "reader on " + field.Name() + " vs stores to it"
		pos := c.P.Pos(fn.Pos())
		n++
		if stores == 0 {
			r.Ok(rule, fk, cons, pos, "the field is never replaced while the reader runs")
			continue
		}
		// path-sensitive walk; two passes so that the set of old-connection aliases is complete in the second
		old := map[ssa.Value]bool{}
		bad := ""
		for pass := 0; pass < 2; pass++ {
			bad = ""
			type st struct {
				b                *ssa.BasicBlock
				replaced, closed bool
			}
			seen := map[st]bool{}
			var visit func(s st)
			visit = func(s st) {
				if seen[s] || bad != "" {
					return
				}
				seen[s] = true
				replaced, closed := s.replaced, s.closed
				for _, in := range s.b.Instrs {
					switch x := in.(type) {
					case *ssa.UnOp:
						if loadOf(x) == field && !replaced {
							old[x] = true
						}
					case *ssa.Store:
						if fa, ok := x.Addr.(*ssa.FieldAddr); ok && isConnField(fa) == field {
							replaced = !old[x.Val]
						}
					case *ssa.Return:
						if replaced && !closed && bad == "" {
							bad = c.P.InstrPos(x)
						}
					}
					if ci, ok := in.(ssa.CallInstruction); ok {
						if _, isGo := in.(*ssa.Go); isGo {
							continue
						}
						com := ci.Common()
						if com.IsInvoke() && com.Method.Name() == "Close" && old[com.Value] {
							closed = true
						}
						if cal := calleeOf(com); cal != nil && c.P.InModule(cal) {
							for i, a := range com.Args {
								if old[a] && closesParam(cal, i, 0) {
									closed = true
								}
							}
						}
					}
				}
				for _, nb := range s.b.Succs {
					visit(st{nb, replaced, closed})
				}
			}
			visit(st{fn.Blocks[0], false, false})
		}
		if bad == "" {
			r.Ok(rule, fk, cons, pos, fmt.Sprintf("%d stores: on every path that replaces the connection the old one is closed", stores))
		} else {
			r.Bad(rule, fk, cons, pos, "a path replaces "+field.Name()+" while the reader goroutine started on the old connection is still running and returns ("+bad+") without closing the old connection: the deferred wait for the reader blocks until the remote sends or closes, the state's timers and admin events are no longer served, and deleting the peer leaves the goroutine and both connections behind")
		}
	}
	_ = n
}
