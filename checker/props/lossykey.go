package props

import (
	"fmt"
	"go/token"
	"go/types"
	"strings"

	"golang.org/x/tools/go/ssa"

	"gbverif/ir"
)

// indexingParams: the parameters of fn (a module function) that reach the index of an element access through
// shifts, masks and conversions only — a bitmap or table accessor keyed by that parameter.
func indexingParams(fn *ssa.Function) map[int]bool {
	out := map[int]bool{}
	if fn == nil || fn.Blocks == nil {
		return out
	}
	var root func(v ssa.Value, d int) ssa.Value
	root = func(v ssa.Value, d int) ssa.Value {
		if d > 6 {
			return v
		}
		switch x := v.(type) {
		case *ssa.Convert:
			return root(x.X, d+1)
		case *ssa.ChangeType:
			return root(x.X, d+1)
		case *ssa.BinOp:
			switch x.Op {
			case token.SHR, token.SHL, token.AND, token.REM, token.QUO:
				if _, ok := x.Y.(*ssa.Const); ok {
					return root(x.X, d+1)
				}
			}
		}
		return v
	}
	for _, b := range fn.Blocks {
		for _, in := range b.Instrs {
			var idx ssa.Value
			switch x := in.(type) {
			case *ssa.IndexAddr:
				idx = x.Index
			case *ssa.Index:
				idx = x.Index
			case *ssa.Lookup:
				idx = x.Index
			}
			if idx == nil {
				continue
			}
			if p, ok := root(idx, 0).(*ssa.Parameter); ok {
				for i, q := range fn.Params {
					if q == p {
						out[i] = true
					}
				}
			}
		}
	}
	return out
}

// lossyKeyReviewed: truncations that cannot lose information for a reason the interval analysis does not see.
var lossyKeyReviewed = map[string]string{}

// ruleLossyKey: a value that is cut down to a narrower unsigned type and then used as a key must fit.
func (c *Ctx) ruleLossyKey(rule string, min int) {
	r := c.R
	r.Rule(rule, "lossy lookup key: in the file the compiled community matchers live in, every conversion of an integer to a narrower unsigned type whose result keys a lookup — it is the index of an element access, a map key, or the argument of a module function that uses that parameter (through shifts and masks only) as an index: the bitmap and per-AS table accessors — must not drop information: either the interval analysis (constants, dominating comparisons with constants on the same quantity, widening conversions, masks) proves the value fits the narrow type at that point, or the same function consumes the dropped bits separately (the same quantity shifted right by at least the narrow width: the administrator half of a community). Otherwise two values that differ only in the dropped bits share an entry and the fast path accepts a community its regular expression does not (a 32-bit local administrator looked up in the 16-bit bitmap)", min)
	width := func(t types.Type) (int, bool) {
		b, ok := t.Underlying().(*types.Basic)
		if !ok || b.Info()&types.IsInteger == 0 {
			return 0, false
		}
		switch b.Kind() {
		case types.Uint8, types.Int8:
			return 8, true
		case types.Uint16, types.Int16:
			return 16, true
		case types.Uint32, types.Int32:
			return 32, true
		}
		return 64, true
	}
	for _, fn := range c.P.FuncsIn("internal/pkg/table") {
		if fn.Blocks == nil || !strings.HasSuffix(c.P.Fset.Position(ir.Outer(fn).Pos()).Filename, "internal/pkg/table/policy.go") {
			continue
		}
		n := 0
		for _, b := range fn.Blocks {
			for _, in := range b.Instrs {
				cv, ok := in.(*ssa.Convert)
				if !ok {
					continue
				}
				tw, ok1 := width(cv.Type())
				sw, ok2 := width(cv.X.Type())
				if !ok1 || !ok2 || tw >= sw || tw > 16 {
					continue
				}
				if _, isConst := cv.X.(*ssa.Const); isConst {
					continue
				}
				// is the narrow value a key?
				key := ""
				for _, ref := range *cv.Referrers() {
					switch x := ref.(type) {
					case *ssa.IndexAddr:
						if x.Index == ssa.Value(cv) {
							key = "index"
						}
					case *ssa.Index:
						if x.Index == ssa.Value(cv) {
							key = "index"
						}
					case *ssa.Lookup:
						if x.Index == ssa.Value(cv) {
							key = "map key"
						}
					case ssa.CallInstruction:
						cal := calleeOf(x.Common())
						if cal == nil || !c.P.InModule(cal) {
							continue
						}
						ip := indexingParams(cal)
						args := x.Common().Args
						for i, a := range args {
							if a == ssa.Value(cv) && ip[i] {
								key = "key of " + ir.FuncKey(cal)
							}
						}
					}
				}
				if key == "" {
					continue
				}
				n++
				fk := ir.OuterKey(fn)
				cons := fmt.Sprintf("%s→%s as %s #%d", cv.X.Type().String(), cv.Type().String(), key, n)
				tmax := uint64(1)<<uint(tw) - 1
				ub := upperBound(cv.X, b, 0)
				if ub <= tmax {
					r.Ok(rule, fk, cons, c.P.InstrPos(cv), fmt.Sprintf("the value is at most %d here", ub))
					continue
				}
				// the dropped bits are consumed separately
				split := false
				for _, f2 := range append([]*ssa.Function{ir.Outer(fn)}, ir.Outer(fn).AnonFuncs...) {
					for _, b2 := range f2.Blocks {
						for _, in2 := range b2.Instrs {
							if sh, ok := in2.(*ssa.BinOp); ok && sh.Op == token.SHR && sameSym(sh.X, cv.X) {
								if k, ok := sh.Y.(*ssa.Const); ok && k.Value != nil && k.Int64() >= int64(tw) {
									split = true
								}
							}
						}
					}
				}
				if split {
					r.Ok(rule, fk, cons, c.P.InstrPos(cv), "the function uses the dropped bits separately (the same quantity shifted right)")
				} else if why, ok := lossyKeyReviewed[fk]; ok {
					r.Except(rule, fk, cons, c.P.InstrPos(cv), why)
				} else {
					r.Bad(rule, fk, cons, c.P.InstrPos(cv), fmt.Sprintf("the value can be as large as %d but is cut to %d bits before it keys the lookup, and nothing in the function tests or uses the dropped bits: values that differ only there share an entry", ub, tw))
				}
			}
		}
	}
}

// rulePackedField: the low part of a packed word must fit below the high part.
func (c *Ctx) rulePackedField(rule string, min int) {
	r := c.R
	r.Rule(rule, "packed word: in the file the compiled community matchers live in, wherever a word is composed as (high << k) | low (or +), the low part must be provably smaller than 2^k at that point (interval analysis over constants, conversions, dominating comparisons, the bit size handed to strconv.ParseUint, and the returned values of statically called module functions under the call's constant arguments). Otherwise the low part spills into the high part and the composed community is another community than the one the pattern names (^65000:70000$ compiled to 65001:4464)", min)
	for _, fn := range c.P.FuncsIn("internal/pkg/table") {
		if fn.Blocks == nil || !strings.HasSuffix(c.P.Fset.Position(ir.Outer(fn).Pos()).Filename, "internal/pkg/table/policy.go") {
			continue
		}
		n := 0
		for _, b := range fn.Blocks {
			for _, in := range b.Instrs {
				bo, ok := in.(*ssa.BinOp)
				if !ok || bo.Op != token.OR && bo.Op != token.ADD && bo.Op != token.XOR {
					continue
				}
				var low ssa.Value
				k := int64(-1)
				for i, side := range []ssa.Value{bo.X, bo.Y} {
					if sh, ok := side.(*ssa.BinOp); ok && sh.Op == token.SHL {
						if kc, ok := sh.Y.(*ssa.Const); ok && kc.Value != nil && kc.Int64() > 0 && kc.Int64() < 40 {
							k = kc.Int64()
							low = []ssa.Value{bo.Y, bo.X}[i]
						}
					}
				}
				if low == nil {
					continue
				}
				if _, isK := low.(*ssa.Const); isK {
					continue
				}
				if sh, ok := low.(*ssa.BinOp); ok && sh.Op == token.SHL {
					continue // both sides shifted: fields of a wider word, each judged where it is combined with a low part
				}
				n++
				fk := ir.OuterKey(fn)
				cons := fmt.Sprintf("(… << %d) %s low #%d", k, bo.Op, n)
				ub := upperBound(low, b, 0)
				if ub < uint64(1)<<uint(k) {
					r.Ok(rule, fk, cons, c.P.InstrPos(bo), fmt.Sprintf("the low part is at most %d", ub))
				} else {
					r.Bad(rule, fk, cons, c.P.InstrPos(bo), fmt.Sprintf("the low part can be as large as %d, which does not fit below bit %d: it spills into the high part of the word", ub, k))
				}
			}
		}
	}
}
