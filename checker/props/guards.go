package props

import (
	"fmt"
	"go/constant"
	"go/token"
	"go/types"

	"golang.org/x/tools/go/ssa"

	"gbverif/ir"
)

// stripConv removes value-preserving conversions.
func stripConv(v ssa.Value) ssa.Value {
	for {
		switch x := v.(type) {
		case *ssa.Convert:
			v = x.X
		case *ssa.ChangeType:
			v = x.X
		default:
			return v
		}
	}
}

// sameSym: the two values denote the same quantity: identical SSA value, equal constants, or
// loads of the same field (chain) of the same base (go/ssa performs no CSE on loads).
func sameSym(a, b ssa.Value) bool {
	a, b = stripConv(a), stripConv(b)
	if a == b {
		return true
	}
	if ca, ok := a.(*ssa.Const); ok {
		if cb, ok := b.(*ssa.Const); ok && ca.Value != nil && cb.Value != nil {
			return constant.Compare(ca.Value, token.EQL, cb.Value)
		}
		return false
	}
	ua, ok1 := a.(*ssa.UnOp)
	ub, ok2 := b.(*ssa.UnOp)
	if ok1 && ok2 && ua.Op == token.MUL && ub.Op == token.MUL {
		return sameAddr(ua.X, ub.X)
	}
	ba, ok1 := a.(*ssa.BinOp)
	bb, ok2 := b.(*ssa.BinOp)
	if ok1 && ok2 && ba.Op == bb.Op {
		return sameSym(ba.X, bb.X) && sameSym(ba.Y, bb.Y)
	}
	return false
}

func sameAddr(a, b ssa.Value) bool {
	if a == b {
		return true
	}
	fa, ok1 := a.(*ssa.FieldAddr)
	fb, ok2 := b.(*ssa.FieldAddr)
	if ok1 && ok2 && fa.Field == fb.Field {
		return sameAddr(fa.X, fb.X) || sameSym(fa.X, fb.X)
	}
	return false
}

// isLenOf: v is len(x) for the given x.
func isLenOf(v ssa.Value, x ssa.Value) bool {
	call, ok := stripConv(v).(*ssa.Call)
	if !ok {
		return false
	}
	b, ok := call.Call.Value.(*ssa.Builtin)
	return ok && b.Name() == "len" && len(call.Call.Args) == 1 && call.Call.Args[0] == x
}

// edgeDominates: block b is only reachable through the edge from -> from.Succs[si].
func edgeDominates(from *ssa.BasicBlock, si int, b *ssa.BasicBlock) bool {
	s := from.Succs[si]
	if len(s.Preds) != 1 {
		return false
	}
	return s == b || s.Dominates(b)
}

// lenGuards: does some dominating branch establish len(x) >= bound at block b?
func lenGuards(fn *ssa.Function, x ssa.Value, bound ssa.Value, b *ssa.BasicBlock) bool {
	for _, g := range fn.Blocks {
		if len(g.Instrs) == 0 {
			continue
		}
		iff, ok := g.Instrs[len(g.Instrs)-1].(*ssa.If)
		if !ok {
			continue
		}
		cmp, ok := iff.Cond.(*ssa.BinOp)
		if !ok {
			continue
		}
		var lenLeft bool
		var other ssa.Value
		switch {
		case isLenOf(cmp.X, x):
			lenLeft, other = true, cmp.Y
		case isLenOf(cmp.Y, x):
			lenLeft, other = false, cmp.X
		default:
			continue
		}
		if !boundCovered(other, bound) {
			continue
		}
		// which edge implies len >= bound (other)?
		op := cmp.Op
		if !lenLeft { // other OP len  ==> len OP' other
			switch op {
			case token.LSS:
				op = token.GTR
			case token.LEQ:
				op = token.GEQ
			case token.GTR:
				op = token.LSS
			case token.GEQ:
				op = token.LEQ
			}
		}
		safe := -1
		switch op {
		case token.LSS: // len < other : false edge safe
			safe = 1
		case token.GEQ: // len >= other : true edge safe
			safe = 0
		case token.GTR: // len > other : true edge safe (stronger)
			safe = 0
		}
		if safe >= 0 && edgeDominates(g, safe, b) {
			return true
		}
	}
	return false
}

// boundCovered: establishing len >= tested suffices for slicing up to bound.
func boundCovered(tested, bound ssa.Value) bool {
	if sameSym(tested, bound) {
		return true
	}
	ct, ok1 := stripConv(tested).(*ssa.Const)
	cb, ok2 := stripConv(bound).(*ssa.Const)
	if ok1 && ok2 && ct.Value != nil && cb.Value != nil {
		return constant.Compare(ct.Value, token.GEQ, cb.Value)
	}
	return false
}

// ruleSplitters (E6 same-value guard): in every function with the bufio.SplitFunc shape, each
// slice of the input by an upper bound is dominated by a test of len(input) against that bound.
func (c *Ctx) ruleSplitters() {
	r := c.R
	rule := "E6.split"
	r.Rule(rule, "stream splitters (functions of the bufio.SplitFunc shape): every data[:n] is dominated by a branch that establishes len(data) >= n for that same n (len, not cap), so no token is longer than the data given and nothing beyond len(data) is read", 3)
	for _, fn := range c.P.Funcs {
		if fn.Parent() != nil || fn.Blocks == nil || !isSplitFunc(fn.Signature) {
			continue
		}
		data := fn.Params[len(fn.Params)-2]
		fk := ir.FuncKey(fn)
		n := 0
		for _, b := range fn.Blocks {
			for _, in := range b.Instrs {
				switch x := in.(type) {
				case *ssa.Slice:
					if x.X != ssa.Value(data) || x.High == nil {
						continue
					}
					n++
					cons := fmt.Sprintf("data[:%s]", x.High.Name())
					if cst, ok := x.High.(*ssa.Const); ok {
						cons = "data[:" + cst.Value.ExactString() + "]"
					}
					if lenGuards(fn, data, x.High, b) {
						r.Ok(rule, fk, cons, c.P.InstrPos(x), "dominated by a len(data) test against the same bound")
					} else {
						r.Bad(rule, fk, cons, c.P.InstrPos(x), "no dominating branch establishes len(data) >= this bound (a cap() test or a test of a different value does not count)")
					}
				case *ssa.Call:
					if bi, ok := x.Call.Value.(*ssa.Builtin); ok && bi.Name() == "cap" && len(x.Call.Args) == 1 && x.Call.Args[0] == ssa.Value(data) {
						r.Bad(rule, fk, "cap(data)", c.P.InstrPos(x), "splitter consults cap(data): bytes beyond len(data) are not input")
					}
				}
			}
		}
		if n == 0 {
			r.Add(oblT(rule, fk, "no slicing", c.P.Pos(fn.Pos()), "ok", "splitter does not slice its input by an upper bound", nil, true))
		}
	}
}

func isSplitFunc(sig *types.Signature) bool {
	if sig.Params().Len() != 2 || sig.Results().Len() != 3 || sig.Recv() != nil {
		return false
	}
	if !isByteSlice(sig.Params().At(0).Type()) {
		return false
	}
	if b, ok := sig.Params().At(1).Type().Underlying().(*types.Basic); !ok || b.Kind() != types.Bool {
		return false
	}
	if b, ok := sig.Results().At(0).Type().Underlying().(*types.Basic); !ok || b.Kind() != types.Int {
		return false
	}
	return isByteSlice(sig.Results().At(1).Type())
}

// mustPassThrough: every path from entry to a function exit goes through a block satisfying mark.
func mustPassThrough(entry *ssa.BasicBlock, mark func(*ssa.BasicBlock) bool) bool {
	seen := map[*ssa.BasicBlock]bool{}
	work := []*ssa.BasicBlock{entry}
	for len(work) > 0 {
		b := work[0]
		work = work[1:]
		if seen[b] || mark(b) {
			continue
		}
		seen[b] = true
		if ir.IsExit(b) {
			return false
		}
		work = append(work, b.Succs...)
	}
	return true
}
