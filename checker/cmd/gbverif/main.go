// gbverif: repository-specific static checker for osrg/gobgp properties C01..C20.
package main

import (
	"bytes"
	"encoding/json"
	"flag"
	"fmt"
	"os"
	"os/exec"
	"path/filepath"
	"runtime/debug"
	"sort"
	"strings"

	"gbverif/ir"
	"gbverif/props"
	"gbverif/report"
)

func usage() {
	fmt.Fprintln(os.Stderr, "usage: gbverif check <Cxx> [--tier quick|thorough] [--only rulePrefix] | replay <file> | list")
	os.Exit(2)
}

func main() {
	if len(os.Args) < 2 {
		usage()
	}
	switch os.Args[1] {
	case "list":
		for _, id := range props.IDs() {
			fmt.Println(id)
		}
	case "debug":
		p, err := ir.Load(ir.RepoDir(), ir.BuildCtx{}, nil)
		if err != nil {
			fmt.Fprintln(os.Stderr, err)
			os.Exit(2)
		}
		props.Debug(p, os.Args[2])
	case "control":
		// control <Cxx> <seed-dir>: run the property's rules on /repo with the seeded patch overlaid (nothing is written)
		if len(os.Args) < 4 {
			usage()
		}
		os.Exit(control(os.Args[2], os.Args[3]))
	case "check":
		if len(os.Args) < 3 {
			usage()
		}
		id := os.Args[2]
		fs := flag.NewFlagSet("check", flag.ExitOnError)
		tier := fs.String("tier", "quick", "quick|thorough")
		only := fs.String("only", "", "restrict output to rules with this prefix")
		fs.Parse(os.Args[3:])
		if t := os.Getenv("VERIF_TIER"); t != "" && !flagSet(fs, "tier") {
			*tier = t
		}
		os.Exit(run(id, *tier, *only))
	case "replay":
		// replay <file>: re-evaluates, on /repo's current tree, the rule a recorded violation came from (the replay
		// file names the property, the rule and the obligation); exit 1 and a VIOLATION line if it is still violated.
		// Evidence of this partial run goes to a scratch directory, not over the property's evidence file.
		if len(os.Args) < 3 {
			usage()
		}
		b, err := os.ReadFile(os.Args[2])
		if err != nil {
			fmt.Fprintln(os.Stderr, err)
			os.Exit(2)
		}
		var rf struct {
			Property   string `json:"property"`
			Key        string `json:"key"`
			Obligation struct {
				Rule string `json:"rule"`
			} `json:"obligation"`
		}
		if json.Unmarshal(b, &rf) != nil || rf.Property == "" {
			fmt.Fprintln(os.Stderr, "not a replay file")
			os.Exit(2)
		}
		rule := rf.Obligation.Rule
		if rule == "" {
			if i := strings.Index(rf.Key, "|"); i > 0 {
				rule = rf.Key[:i]
			}
		}
		tmp, err := os.MkdirTemp("", "gbverif-replay-")
		if err != nil {
			fmt.Fprintln(os.Stderr, err)
			os.Exit(2)
		}
		vd := os.Getenv("VERIF_DIR")
		if vd == "" {
			vd = "/verif"
		}
		if kf, err := os.ReadFile(filepath.Join(vd, "known_findings.json")); err == nil {
			os.WriteFile(filepath.Join(tmp, "known_findings.json"), kf, 0o644)
		}
		os.Setenv("VERIF_DIR", tmp)
		code := run(rf.Property, "quick", rule)
		if code == 0 {
			os.RemoveAll(tmp) // on a violation the new replay file named in the VIOLATION line is kept
		}
		os.Exit(code)
	case "checkall":
		// every property in one process over one loaded program (development aid: the registered commands run
		// one property per process)
		code := 0
		for i := 1; i <= 20; i++ {
			if rc := run(fmt.Sprintf("C%02d", i), "quick", ""); rc != 0 {
				code = 1
			}
		}
		os.Exit(code)
	default:
		usage()
	}
}

func flagSet(fs *flag.FlagSet, name string) bool {
	set := false
	fs.Visit(func(f *flag.Flag) {
		if f.Name == name {
			set = true
		}
	})
	return set
}

func run(id, tier, only string) (code int) {
	chk := props.Get(id)
	if chk == nil {
		fmt.Fprintf(os.Stderr, "unknown property %s\n", id)
		return 2
	}
	rep := report.New(id, tier)
	rep.Explanation = chk.Expl + props.RatchetExpl
	rep.NotDecided = chk.Not
	ctxs := []ir.BuildCtx{{}}
	if tier == "thorough" {
		ctxs = append(ctxs, ir.BuildCtx{GOOS: "linux", GOARCH: "386"}, ir.BuildCtx{GOOS: "darwin", GOARCH: "amd64"},
			ir.BuildCtx{GOOS: "freebsd", GOARCH: "amd64"}, ir.BuildCtx{GOOS: "openbsd", GOARCH: "amd64"}, ir.BuildCtx{GOOS: "windows", GOARCH: "amd64"})
	}
	var ctxNames []string
	var fatal error
	for i, bc := range ctxs {
		func() {
			defer func() {
				if e := recover(); e != nil {
					fatal = fmt.Errorf("checker panic (%s): %v\n%s", bc, e, debug.Stack())
				}
			}()
			p, err := loadShared(bc)
			if err != nil {
				if i == 0 {
					fatal = err
				} else {
					// an extra context that does not load is an undecided result, never a pass
					fatal = fmt.Errorf("build context %s: %w", bc, err)
				}
				return
			}
			ctxNames = append(ctxNames, bc.String())
			if i == 0 {
				var names []string
				for _, pk := range p.Pkgs {
					names = append(names, ir.Short(pk.PkgPath))
				}
				rep.Extra["packages_analysed"] = names
				rep.Extra["functions_in_module"] = len(p.Funcs)
			}
			chk.Run(&props.Ctx{P: p, R: rep, Tier: tier})
		}()
		if fatal != nil {
			break
		}
	}
	rep.Extra["build_contexts"] = ctxNames
	if tier == "thorough" && fatal == nil {
		runControls(id, rep)
	}
	rep.Only(only)
	return rep.Finish(fatal)
}

// loadShared loads the program once per build context and process (checkall runs twenty checks over it).
var progCache = map[string]*ir.Program{}

func loadShared(bc ir.BuildCtx) (*ir.Program, error) {
	k := ir.RepoDir() + "|" + bc.String()
	if p := progCache[k]; p != nil {
		return p, nil
	}
	p, err := ir.Load(ir.RepoDir(), bc, nil)
	if err == nil {
		progCache[k] = p
	}
	return p, err
}

type controlResult struct {
	Seed    string   `json:"seed"`
	Applies bool     `json:"applies"`
	Fired   []string `json:"fired"`
	Error   string   `json:"error,omitempty"`
}

// control loads /repo with the seeded patch applied as an overlay and reports which rules fail.
func control(id, seedDir string) int {
	res := controlResult{Seed: filepath.Base(seedDir)}
	out := func() int {
		b, _ := json.Marshal(res)
		fmt.Println("CONTROL " + string(b))
		return 0
	}
	chk := props.Get(id)
	if chk == nil {
		res.Error = "unknown property"
		return out()
	}
	patch, err := os.ReadFile(filepath.Join(seedDir, "patch.diff"))
	if err != nil {
		res.Error = err.Error()
		return out()
	}
	var files []string
	for _, ln := range strings.Split(string(patch), "\n") {
		if strings.HasPrefix(ln, "+++ b/") {
			files = append(files, strings.TrimSpace(strings.TrimPrefix(ln, "+++ b/")))
		}
	}
	tmp, err := os.MkdirTemp("", "gbverif-control-")
	if err != nil {
		res.Error = err.Error()
		return out()
	}
	defer os.RemoveAll(tmp)
	for _, f := range files {
		b, err := os.ReadFile(filepath.Join(ir.RepoDir(), f))
		if err != nil {
			return out() // file gone: the seeded change no longer applies to this tree
		}
		os.MkdirAll(filepath.Dir(filepath.Join(tmp, f)), 0o755)
		os.WriteFile(filepath.Join(tmp, f), b, 0o644)
	}
	cmd := exec.Command("git", "apply", "--whitespace=nowarn", filepath.Join(seedDir, "patch.diff"))
	cmd.Dir = tmp
	if err := cmd.Run(); err != nil {
		return out() // does not apply
	}
	res.Applies = true
	overlay := map[string][]byte{}
	for _, f := range files {
		b, _ := os.ReadFile(filepath.Join(tmp, f))
		overlay[filepath.Join(ir.RepoDir(), f)] = b
	}
	p, err := ir.Load(ir.RepoDir(), ir.BuildCtx{}, overlay)
	if err != nil {
		res.Error = "load: " + err.Error()
		return out()
	}
	rep := report.New(id, "control")
	func() {
		defer func() {
			if e := recover(); e != nil {
				res.Error = fmt.Sprint("panic: ", e)
			}
		}()
		chk.Run(&props.Ctx{P: p, R: rep, Tier: "quick"})
	}()
	res.Fired = rep.FailingRules()
	return out()
}

// runControls: positive controls of the thorough tier. Every seeded change under <VERIF_DIR>/seeded that
// was recorded as detected for this property is overlaid on the current tree in a child process; the
// rules that caught it when it was recorded must fire again. A control whose patch no longer applies is skipped.
func runControls(id string, rep *report.Report) {
	rule := "T.controls"
	metas, _ := filepath.Glob(filepath.Join(rep.VerifDir, "seeded", "*", "meta.json"))
	sort.Strings(metas)
	type meta struct {
		ID       string   `json:"id"`
		Property string   `json:"property"`
		Detected bool     `json:"detected"`
		Rules    []string `json:"detected_by_rules"`
	}
	var todo []meta
	for _, m := range metas {
		b, err := os.ReadFile(m)
		if err != nil {
			continue
		}
		var mt meta
		if json.Unmarshal(b, &mt) != nil || mt.Property != id || !mt.Detected {
			continue
		}
		todo = append(todo, mt)
	}
	if len(todo) == 0 {
		return
	}
	rep.Rule(rule, "positive controls: each recorded seeded change for this property (a behaviour-breaking edit that compiles and passes the suite) is overlaid on the current tree without touching /repo, and at least one of the rules that caught it when it was recorded fires again; a control whose patch no longer applies to the tree is skipped", 0)
	for _, mt := range todo {
		dir := filepath.Join(rep.VerifDir, "seeded", mt.ID)
		cmd := exec.Command(os.Args[0], "control", id, dir)
		cmd.Env = append(os.Environ(), "VERIF_DIR="+os.TempDir())
		var outb bytes.Buffer
		cmd.Stdout = &outb
		cmd.Stderr = nil
		err := cmd.Run()
		var res controlResult
		found := false
		for _, ln := range strings.Split(outb.String(), "\n") {
			if strings.HasPrefix(ln, "CONTROL ") && json.Unmarshal([]byte(strings.TrimPrefix(ln, "CONTROL ")), &res) == nil {
				found = true
			}
		}
		cons := "seeded change " + mt.ID
		switch {
		case err != nil || !found:
			rep.Undec(rule, "-", cons, "-", fmt.Sprintf("control run failed: %v", err))
		case res.Error != "":
			rep.Undec(rule, "-", cons, "-", "control run failed: "+res.Error)
		case !res.Applies:
			rep.Ok(rule, "-", cons, "-", "skipped: the recorded patch no longer applies to this tree")
		default:
			hit := ""
			for _, want := range mt.Rules {
				for _, got := range res.Fired {
					if want == got {
						hit = got
					}
				}
			}
			if hit != "" {
				rep.Ok(rule, "-", cons, "-", "fires "+strings.Join(res.Fired, ", "))
			} else {
				rep.Undec(rule, "-", cons, "-", fmt.Sprintf("the seeded change applies but none of %v fired (fired: %v): the rule went blind", mt.Rules, res.Fired))
			}
		}
	}
}
