// gbverif: repository-specific static checker for osrg/gobgp properties C01..C20.
package main

import (
	"flag"
	"fmt"
	"os"
	"runtime/debug"

	"gbverif/ir"
	"gbverif/props"
	"gbverif/report"
)

func usage() {
	fmt.Fprintln(os.Stderr, "usage: gbverif check <Cxx> [--tier quick|thorough] [--only rulePrefix] | list")
	os.Exit(2)
}

func main() {
	if len(os.Args) < 2 {
		usage()
	}
	switch os.Args[1] {
	case "list":
		for _, id := range props.IDs() {
			fmt.Println(id)
		}
	case "debug":
		p, err := ir.Load(ir.RepoDir(), ir.BuildCtx{}, nil)
		if err != nil {
			fmt.Fprintln(os.Stderr, err)
			os.Exit(2)
		}
		props.Debug(p, os.Args[2])
	case "check":
		if len(os.Args) < 3 {
			usage()
		}
		id := os.Args[2]
		fs := flag.NewFlagSet("check", flag.ExitOnError)
		tier := fs.String("tier", "quick", "quick|thorough")
		only := fs.String("only", "", "restrict output to rules with this prefix")
		fs.Parse(os.Args[3:])
		if t := os.Getenv("VERIF_TIER"); t != "" && !flagSet(fs, "tier") {
			*tier = t
		}
		os.Exit(run(id, *tier, *only))
	default:
		usage()
	}
}

func flagSet(fs *flag.FlagSet, name string) bool {
	set := false
	fs.Visit(func(f *flag.Flag) {
		if f.Name == name {
			set = true
		}
	})
	return set
}

func run(id, tier, only string) (code int) {
	chk := props.Get(id)
	if chk == nil {
		fmt.Fprintf(os.Stderr, "unknown property %s\n", id)
		return 2
	}
	rep := report.New(id, tier)
	rep.Explanation = chk.Expl
	rep.NotDecided = chk.Not
	ctxs := []ir.BuildCtx{{}}
	if tier == "thorough" {
		ctxs = append(ctxs, ir.BuildCtx{GOOS: "linux", GOARCH: "386"}, ir.BuildCtx{GOOS: "darwin", GOARCH: "amd64"},
			ir.BuildCtx{GOOS: "freebsd", GOARCH: "amd64"}, ir.BuildCtx{GOOS: "openbsd", GOARCH: "amd64"}, ir.BuildCtx{GOOS: "windows", GOARCH: "amd64"})
	}
	var ctxNames []string
	var fatal error
	for i, bc := range ctxs {
		func() {
			defer func() {
				if e := recover(); e != nil {
					fatal = fmt.Errorf("checker panic (%s): %v\n%s", bc, e, debug.Stack())
				}
			}()
			p, err := ir.Load(ir.RepoDir(), bc, nil)
			if err != nil {
				if i == 0 {
					fatal = err
				} else {
					// an extra context that does not load is an undecided result, never a pass
					fatal = fmt.Errorf("build context %s: %w", bc, err)
				}
				return
			}
			ctxNames = append(ctxNames, bc.String())
			if i == 0 {
				var names []string
				for _, pk := range p.Pkgs {
					names = append(names, ir.Short(pk.PkgPath))
				}
				rep.Extra["packages_analysed"] = names
				rep.Extra["functions_in_module"] = len(p.Funcs)
			}
			chk.Run(&props.Ctx{P: p, R: rep, Tier: tier})
		}()
		if fatal != nil {
			break
		}
	}
	rep.Extra["build_contexts"] = ctxNames
	rep.Only(only)
	return rep.Finish(fatal)
}
