// Package ir loads /repo's current working tree into type-checked packages,
// SSA form and a VTA call graph, and offers the lookups every engine needs.
package ir

import (
	"fmt"
	"go/ast"
	"go/token"
	"go/types"
	"os"
	"sort"
	"strings"
	"sync"

	"golang.org/x/tools/go/callgraph"
	"golang.org/x/tools/go/callgraph/cha"
	"golang.org/x/tools/go/callgraph/vta"
	"golang.org/x/tools/go/packages"
	"golang.org/x/tools/go/ssa"
	"golang.org/x/tools/go/ssa/ssautil"
)

const ModPath = "github.com/osrg/gobgp/v4"

// BuildCtx selects GOOS/GOARCH for a load.
type BuildCtx struct{ GOOS, GOARCH string }

func (b BuildCtx) String() string {
	if b.GOOS == "" && b.GOARCH == "" {
		return "default(linux/amd64)"
	}
	return b.GOOS + "/" + b.GOARCH
}

type Program struct {
	Dir     string
	Ctx     BuildCtx
	Fset    *token.FileSet
	Pkgs    []*packages.Package // module packages, sorted by path
	ByPath  map[string]*packages.Package
	SSA     *ssa.Program
	Funcs   []*ssa.Function // every function (incl. methods, closures, generic instances) whose origin is in the module
	byName  map[string]*ssa.Function
	cgOnce  sync.Once
	cg      *callgraph.Graph
	fileOf  map[*token.File]*ast.File
	Overlay map[string][]byte
}

// RepoDir returns the tree to analyse: /repo unless VERIF_REPO overrides it
// (used only to point the checker at a scratch worktree while developing).
func RepoDir() string {
	if d := os.Getenv("VERIF_REPO"); d != "" {
		return d
	}
	return "/repo"
}

// Load type-checks ./... of dir (tests excluded) and builds SSA.
func Load(dir string, bc BuildCtx, overlay map[string][]byte) (*Program, error) {
	env := append(os.Environ(), "GOFLAGS=-mod=mod", "GOPROXY=off", "GOWORK=off", "CGO_ENABLED=0")
	if bc.GOOS != "" {
		env = append(env, "GOOS="+bc.GOOS)
	}
	if bc.GOARCH != "" {
		env = append(env, "GOARCH="+bc.GOARCH)
	}
	fset := token.NewFileSet()
	cfg := &packages.Config{
		Mode:    packages.LoadAllSyntax,
		Dir:     dir,
		Fset:    fset,
		Env:     env,
		Tests:   false,
		Overlay: overlay,
	}
	pkgs, err := packages.Load(cfg, "./...")
	if err != nil {
		return nil, fmt.Errorf("packages.Load: %w", err)
	}
	if len(pkgs) == 0 {
		return nil, fmt.Errorf("no packages loaded from %s", dir)
	}
	var errs []string
	packages.Visit(pkgs, nil, func(p *packages.Package) {
		for _, e := range p.Errors {
			errs = append(errs, e.Error())
		}
	})
	if len(errs) > 0 {
		sort.Strings(errs)
		if len(errs) > 10 {
			errs = errs[:10]
		}
		return nil, fmt.Errorf("type-check/load errors (%s): %s", bc, strings.Join(errs, "; "))
	}
	p := &Program{Dir: dir, Ctx: bc, Fset: fset, ByPath: map[string]*packages.Package{}, byName: map[string]*ssa.Function{}, Overlay: overlay}
	for _, pk := range pkgs {
		if strings.HasPrefix(pk.PkgPath, ModPath) {
			p.Pkgs = append(p.Pkgs, pk)
		}
	}
	sort.Slice(p.Pkgs, func(i, j int) bool { return p.Pkgs[i].PkgPath < p.Pkgs[j].PkgPath })
	packages.Visit(pkgs, nil, func(pk *packages.Package) { p.ByPath[pk.PkgPath] = pk })
	prog, _ := ssautil.AllPackages(pkgs, ssa.InstantiateGenerics)
	prog.Build()
	p.SSA = prog
	for fn := range ssautil.AllFunctions(prog) {
		if p.InModule(fn) {
			p.Funcs = append(p.Funcs, fn)
		}
	}
	sort.Slice(p.Funcs, func(i, j int) bool {
		a, b := p.Funcs[i], p.Funcs[j]
		if a.String() != b.String() {
			return a.String() < b.String()
		}
		return a.Pos() < b.Pos()
	})
	for _, fn := range p.Funcs {
		p.byName[FuncKey(fn)] = fn
	}
	return p, nil
}

func originPkg(fn *ssa.Function) *types.Package {
	for fn != nil {
		if fn.Pkg != nil {
			return fn.Pkg.Pkg
		}
		if o := fn.Origin(); o != nil && o != fn {
			fn = o
			continue
		}
		if fn.Parent() != nil {
			fn = fn.Parent()
			continue
		}
		if fn.Object() != nil && fn.Object().Pkg() != nil {
			return fn.Object().Pkg()
		}
		return nil
	}
	return nil
}

// PkgOf returns the types.Package a function belongs to (through closures and instantiations).
func PkgOf(fn *ssa.Function) *types.Package { return originPkg(fn) }

func (p *Program) InModule(fn *ssa.Function) bool {
	if fn.Synthetic != "" && fn.Parent() == nil && fn.Origin() == nil {
		// wrappers, thunks, bound methods: analysed through their targets
		if !strings.HasPrefix(fn.Synthetic, "package initializer") {
			return false
		}
	}
	pk := originPkg(fn)
	return pk != nil && strings.HasPrefix(pk.Path(), ModPath)
}

// Short strips the module path from a qualified name.
func Short(s string) string {
	s = strings.ReplaceAll(s, ModPath+"/", "")
	return s
}

// FuncKey is the stable name of a function: "(*pkg/server.BgpServer).propagateUpdate$1".
func FuncKey(fn *ssa.Function) string { return Short(fn.String()) }

// OuterKey is FuncKey of the outermost enclosing named function (closure suffixes dropped).
func OuterKey(fn *ssa.Function) string {
	for fn.Parent() != nil {
		fn = fn.Parent()
	}
	return FuncKey(fn)
}

// Outer returns the outermost enclosing function.
func Outer(fn *ssa.Function) *ssa.Function {
	for fn.Parent() != nil {
		fn = fn.Parent()
	}
	return fn
}

// Func looks a function up by its key, e.g. "(*pkg/server.BgpServer).propagateUpdate" or "pkg/packet/bgp.ParseBGPMessage".
func (p *Program) Func(key string) *ssa.Function { return p.byName[key] }

// Pkg returns the module package with the given short path ("pkg/server").
func (p *Program) Pkg(short string) *packages.Package { return p.ByPath[ModPath+"/"+short] }

// SSAPkg returns the ssa package for a short path.
func (p *Program) SSAPkg(short string) *ssa.Package {
	pk := p.Pkg(short)
	if pk == nil {
		return nil
	}
	return p.SSA.Package(pk.Types)
}

// FuncsIn returns all functions (incl. closures/methods) whose package has the short path.
func (p *Program) FuncsIn(shorts ...string) []*ssa.Function {
	var out []*ssa.Function
	for _, fn := range p.Funcs {
		pk := originPkg(fn)
		for _, s := range shorts {
			if pk.Path() == ModPath+"/"+s {
				out = append(out, fn)
				break
			}
		}
	}
	return out
}

// Pos renders a position relative to the repo dir.
func (p *Program) Pos(pos token.Pos) string {
	if !pos.IsValid() {
		return "-"
	}
	ps := p.Fset.Position(pos)
	f := strings.TrimPrefix(ps.Filename, p.Dir+"/")
	return fmt.Sprintf("%s:%d", f, ps.Line)
}

// InstrPos returns the best position for an instruction (falls back to the enclosing function).
func (p *Program) InstrPos(in ssa.Instruction) string {
	if in.Pos().IsValid() {
		return p.Pos(in.Pos())
	}
	if v, ok := in.(ssa.Value); ok {
		_ = v
	}
	if in.Parent() != nil {
		return p.Pos(in.Parent().Pos()) + "(fn)"
	}
	return "-"
}

// CallGraph returns the VTA call graph (built on first use).
func (p *Program) CallGraph() *callgraph.Graph {
	p.cgOnce.Do(func() {
		all := ssautil.AllFunctions(p.SSA)
		p.cg = vta.CallGraph(all, cha.CallGraph(p.SSA))
	})
	return p.cg
}

// Callees resolves the possible callees of a call instruction: the static callee, or VTA edges.
// Unwrap maps a synthetic bound-method wrapper, thunk or promotion wrapper to the declared method it forwards to,
// so that passing x.method as a callback is analysed like passing a closure that calls it.
func Unwrap(fn *ssa.Function) *ssa.Function {
	if fn == nil || fn.Synthetic == "" || fn.Blocks == nil {
		return fn
	}
	if !strings.HasPrefix(fn.Synthetic, "bound method wrapper") && !strings.HasPrefix(fn.Synthetic, "thunk for") && !strings.HasPrefix(fn.Synthetic, "wrapper for") {
		return fn
	}
	var target *ssa.Function
	for _, b := range fn.Blocks {
		for _, in := range b.Instrs {
			if ci, ok := in.(ssa.CallInstruction); ok {
				if cal := ci.Common().StaticCallee(); cal != nil {
					if target != nil && target != cal {
						return fn
					}
					target = cal
				}
			}
		}
	}
	if target == nil {
		return fn
	}
	return Unwrap(target)
}

func (p *Program) Callees(site ssa.CallInstruction) []*ssa.Function {
	if f := site.Common().StaticCallee(); f != nil {
		return []*ssa.Function{Unwrap(f)}
	}
	n := p.CallGraph().Nodes[site.Parent()]
	if n == nil {
		return nil
	}
	var out []*ssa.Function
	seen := map[*ssa.Function]bool{}
	for _, e := range n.Out {
		if cal := Unwrap(e.Callee.Func); e.Site == site && !seen[cal] {
			seen[cal] = true
			out = append(out, cal)
		}
	}
	sort.Slice(out, func(i, j int) bool { return out[i].String() < out[j].String() })
	return out
}

// Callers returns the in-edges of fn.
func (p *Program) Callers(fn *ssa.Function) []*callgraph.Edge {
	n := p.CallGraph().Nodes[fn]
	if n == nil {
		return nil
	}
	return n.In
}

// NamedType finds a named type in a module package.
func (p *Program) NamedType(pkgShort, name string) *types.Named {
	pk := p.Pkg(pkgShort)
	if pk == nil {
		return nil
	}
	o := pk.Types.Scope().Lookup(name)
	if o == nil {
		return nil
	}
	n, _ := o.Type().(*types.Named)
	return n
}

// Field finds a struct field object by name.
func Field(n *types.Named, name string) *types.Var {
	if n == nil {
		return nil
	}
	st, ok := n.Underlying().(*types.Struct)
	if !ok {
		return nil
	}
	for i := 0; i < st.NumFields(); i++ {
		if st.Field(i).Name() == name {
			return st.Field(i)
		}
	}
	return nil
}

// Deref strips pointers.
func Deref(t types.Type) types.Type {
	for {
		p, ok := t.Underlying().(*types.Pointer)
		if !ok {
			return t
		}
		t = p.Elem()
	}
}

// NamedOf returns the named type behind (pointers to) t, or nil.
func NamedOf(t types.Type) *types.Named {
	t = Deref(t)
	if a, ok := t.(*types.Alias); ok {
		t = types.Unalias(a)
	}
	n, _ := t.(*types.Named)
	return n
}

// TypeKey renders a type with the module path stripped.
func TypeKey(t types.Type) string { return Short(types.TypeString(t, nil)) }

// FieldOf returns the struct field selected by a FieldAddr/Field instruction.
func FieldOf(v ssa.Value) *types.Var {
	switch x := v.(type) {
	case *ssa.FieldAddr:
		st := Deref(x.X.Type()).Underlying().(*types.Struct)
		return st.Field(x.Field)
	case *ssa.Field:
		st := x.X.Type().Underlying().(*types.Struct)
		return st.Field(x.Field)
	}
	return nil
}

// FieldKey renders "pkg.Type.field" for a field reached through base type t.
func FieldKey(base types.Type, f *types.Var) string {
	return TypeKey(Deref(base)) + "." + f.Name()
}

// AstFile returns the syntax file containing pos.
func (p *Program) AstFile(pos token.Pos) *ast.File {
	if p.fileOf == nil {
		p.fileOf = map[*token.File]*ast.File{}
		for _, pk := range p.Pkgs {
			for _, f := range pk.Syntax {
				p.fileOf[p.Fset.File(f.Pos())] = f
			}
		}
	}
	return p.fileOf[p.Fset.File(pos)]
}

// IsExit reports whether the block ends the function (Return or Panic).
func IsExit(b *ssa.BasicBlock) bool {
	if len(b.Instrs) == 0 {
		return false
	}
	switch b.Instrs[len(b.Instrs)-1].(type) {
	case *ssa.Return, *ssa.Panic:
		return true
	}
	return false
}

// Deref2 strips exactly one pointer level.
func Deref2(t types.Type) types.Type {
	if p, ok := t.Underlying().(*types.Pointer); ok {
		return p.Elem()
	}
	return t
}
