#!/bin/bash
# usage: tools_confirm_seed.sh <seed-dir-name e.g. C06-a-1>   (confirms a seeded change in a scratch worktree)
set -u
id=$1
src=/tmp/seed/out/$id
dst=/verif/seeded/$id
wt=/tmp/confirm/$id
export GOFLAGS=-mod=mod GOPROXY=off GOWORK=off
mkdir -p $dst /tmp/confirm
cp $src/patch.diff $dst/patch.diff
cp $src/meta.json $dst/agent_meta.json
for f in $src/*_test.go $src/*.go; do [ -f "$f" ] && cp $f $dst/; done
log=$dst/confirm.log; : > $log
git -C /repo worktree remove --force $wt 2>/dev/null
git -C /repo worktree add --detach $wt HEAD -q || { echo "worktree failed" >> $log; exit 1; }
cd $wt
demo_dir=$(jq -r '.demo_dir' $src/meta.json)
demo_cmd=$(python3 - "$src/meta.json" <<'PY'
import json,re,sys
c=json.load(open(sys.argv[1]))['demo_cmd']
run=re.search(r"-run\s+'([^']+)'",c) or re.search(r'-run\s+"?([^\s"]+)',c)
pkg=re.search(r"(\./[\w/]+)",c[c.index('go test'):])
race='-race ' if re.search(r'go test[^(]*-race', c) else ''
cnt=re.search(r"-count[= ](\d+)",c)
print("go test -vet=off %s-count=%s -timeout 20m -run '%s' %s/"%(race,cnt.group(1) if cnt else '1',run.group(1),pkg.group(1).rstrip('/')))
PY
)
echo "HEAD $(git rev-parse --short HEAD) demo_dir=$demo_dir demo_cmd=$demo_cmd" >> $log
if ! git apply --check $src/patch.diff 2>>$log; then echo "RESULT patch-does-not-apply" >> $log; cd /; git -C /repo worktree remove --force $wt; exit 1; fi
git apply $src/patch.diff
go build ./... >> $log 2>&1 || { echo "RESULT build-fails" >> $log; }
# demo with patch
for f in $src/*_test.go; do cp $f $demo_dir/; done
( cd $wt && unshare -n sh -c "ip link set lo up && $demo_cmd" ) > $dst/demo_with_patch.log 2>&1; rc1=$?
echo "demo with patch: exit $rc1" >> $log
for f in $src/*_test.go; do rm -f $demo_dir/$(basename $f); done
# suite with patch
unshare -n sh -c 'ip link set lo up && go test -vet=off -count=1 -timeout 25m ./...' > $dst/suite_with_patch.log 2>&1; rc2=$?
echo "suite with patch: exit $rc2" >> $log
# demo without patch
git checkout -- . ; git clean -fdq
for f in $src/*_test.go; do cp $f $demo_dir/; done
( cd $wt && unshare -n sh -c "ip link set lo up && $demo_cmd" ) > $dst/demo_without_patch.log 2>&1; rc3=$?
echo "demo without patch: exit $rc3" >> $log
if [ $rc1 -ne 0 ] && [ $rc2 -eq 0 ] && [ $rc3 -eq 0 ]; then echo "RESULT confirmed" >> $log; else echo "RESULT not-confirmed" >> $log; fi
cd /; git -C /repo worktree remove --force $wt
tail -1 $log
